"""Registry filled by the harness before a YAML session."""
ENT = {}
