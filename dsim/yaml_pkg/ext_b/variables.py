from openfisca_core.periods import DateUnit
from openfisca_core.variables import Variable

from dsim.yaml_pkg import current


class x_b(Variable):
    value_type = int
    entity = current.ENT["person"]
    definition_period = DateUnit.YEAR
    label = "added by extension ext_b"

    def formula(population, period):
        return population.filled_array(3)
