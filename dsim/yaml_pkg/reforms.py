from openfisca_core.periods import DateUnit
from openfisca_core.reforms import Reform
from openfisca_core.variables import Variable

from . import current


class add_bonus(Reform):
    """Adds `r_bonus` (person, month) = 42 and raises parameter p0 by 1 from 2018."""

    def apply(self):
        class r_bonus(Variable):
            value_type = float
            entity = current.ENT["person"]
            definition_period = DateUnit.MONTH
            label = "added by the reform add_bonus"

            def formula(population, period, parameters):
                return population.filled_array(42.0) + parameters(period).p0 * 0

        self.add_variable(r_bonus)

        def modifier(parameters):
            parameters.p0.update(start="2018-01-01", value=parameters.p0("2018-01-01") + 1)
            return parameters

        self.modify_parameters(modifier)


class neutralize_first(Reform):
    """Neutralises the first variable of the system (by name order)."""

    def apply(self):
        name = sorted(self.variables)[0]
        self.neutralize_variable(name)


class add_flag(Reform):
    """Adds `r_flag` (person, eternity, bool) = True."""

    def apply(self):
        class r_flag(Variable):
            value_type = bool
            entity = current.ENT["person"]
            definition_period = DateUnit.ETERNITY
            default_value = True
            label = "added by the reform add_flag"

        self.add_variable(r_flag)
