"""Reform and extension modules referred to by generated YAML tests (C20, world B).

They must work on any generated rule system, so they find what they need in
`current` (set by the harness before the session) instead of importing a
country package."""
