from openfisca_core.periods import DateUnit
from openfisca_core.variables import Variable

from dsim.yaml_pkg import current


class x_a(Variable):
    value_type = float
    entity = current.ENT["person"]
    definition_period = DateUnit.MONTH
    label = "added by extension ext_a"

    def formula(population, period):
        return population.filled_array(7.0)
