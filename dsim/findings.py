"""Known-finding matchers (DESIGN 6).

A matcher is a named predicate over a violation record and its minimised
scenario: clause + the specific mechanism.  Any *other* violation of the same
clause stays a VIOLATION.  known_findings.json is never written at run time.
"""

from __future__ import annotations

MATCHERS = {}


def matcher(name):
    def deco(fn):
        MATCHERS[name] = fn
        return fn

    return deco


def match(open_findings, violation, scenario):
    for f in open_findings:
        fn = MATCHERS.get(f.get("matcher"))
        if fn is None:
            continue
        try:
            if fn(violation or {}, scenario, f.get("params") or {}):
                return f["id"]
        except Exception:  # noqa: BLE001,S112
            continue
    return None
