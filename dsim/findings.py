"""Known-finding matchers (DESIGN 6).

A matcher is a named predicate over a violation record and its minimised
scenario: clause + the specific mechanism.  Any *other* violation of the same
clause stays a VIOLATION.  known_findings.json is never written at run time.
"""

from __future__ import annotations

MATCHERS = {}


def matcher(name):
    def deco(fn):
        MATCHERS[name] = fn
        return fn

    return deco


def match(open_findings, violation, scenario):
    for f in open_findings:
        fn = MATCHERS.get(f.get("matcher"))
        if fn is None:
            continue
        try:
            if fn(violation or {}, scenario, f.get("params") or {}):
                return f["id"]
        except Exception:  # noqa: BLE001,S112
            continue
    return None


@matcher("c02_stale_above_spiral")
def _c02_stale_above_spiral(v, scn, params):
    """D0b: a value kept *above* a spiral loop (as tests/core/test_cycles.py::
    test_spiral_cache requires) was reproducible when it was retained; a later
    request made readable an entry that the original computation had replaced by
    a default (or had computed from that default and purged), and the fresh
    recomputation now reads that entry."""
    return (
        v.get("clause") == "C02.retained.old"
        and v.get("reproducible_when_retained") is True
        and bool(v.get("reads_later_retained_default"))
        and scn.get("profile") != "acyclic"
    )


@matcher("c16_int_truncation")
def _c16_int_truncation(v, scn, params):
    """D7: int variable, divide rule, remainder not divisible by the number of
    unknown sub-periods: the per-sub-period share is truncated."""
    return (
        v.get("clause") in ("C16.share", "C16.conserve")
        and v.get("type") == "int"
        and v.get("rule") == "divide"
        and v.get("int_nondivisible") is True
    )


@matcher("c16_rolling_years_summed_by_calendar_year")
def _c16_rolling_years(v, scn, params):
    """D16: a year-defined variable given an amount over a multi-year period that does
    not start in January: the spreading code tiles it with year-long pieces from its
    start, calculate_add sums calendar years (Period.get_subperiods)."""
    return (
        v.get("clause") == "C16.conserve"
        and v.get("unit") == "year"
        and v.get("rule") == "divide"
        and v.get("rolling_years_of_a_year_variable") is True
    )


@matcher("c14_annualized_spiral")
def _c14_annualized_spiral(v, scn, params):
    """D12: an annualised variable computes a non-January month by asking for its own
    January value; with the default spiral budget (max_spiral_loops = 1) that
    self-read is cut and replaced by the default unless January is already
    cached.  Confirmed per violation: with a budget of 3 the derived system
    gives the expected value."""
    return (
        v.get("clause") == "C14.derived"
        and v.get("what") is None
        and v.get("reads_annualized") is True
        and v.get("spiral_budget_only") is True
    )
