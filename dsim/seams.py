"""Seams owned by the simulator (DESIGN 3.2).

Every stub is installed by replacing a *module attribute* of the module that
uses it, e.g. `openfisca_core.holders.holder.psutil = SimMem(...)`; a
transparent proxy forwards every other attribute to the real module.  Nothing in
/repo is edited.
"""

from __future__ import annotations

import errno
import gc
import io
import os as real_os
import random
import shutil as real_shutil
import tempfile as real_tempfile
import time as real_time

import numpy as real_numpy

from . import use_repo

use_repo()

import openfisca_core.data_storage.on_disk_storage as m_disk  # noqa: E402
import openfisca_core.holders.holder as m_holder  # noqa: E402
import openfisca_core.simulations.simulation as m_sim  # noqa: E402
import openfisca_core.tools.simulation_dumper as m_dump  # noqa: E402
import openfisca_core.tracers.full_tracer as m_tracer  # noqa: E402
import openfisca_core.parameters.parameter_node as m_pnode  # noqa: E402


class Proxy:
    """Forward everything to `real` except the names in `overrides`."""

    def __init__(self, real, **overrides) -> None:
        object.__setattr__(self, "_real", real)
        object.__setattr__(self, "_over", overrides)

    def __getattr__(self, name):
        over = object.__getattribute__(self, "_over")
        if name in over:
            return over[name]
        return getattr(object.__getattribute__(self, "_real"), name)


# --------------------------------------------------------------------------- #
# S1 memory pressure
# --------------------------------------------------------------------------- #


class _VM:
    __slots__ = ("percent",)

    def __init__(self, percent) -> None:
        self.percent = percent


class SimMem:
    """`psutil` as the holder sees it: the next value of a schedule."""

    def __init__(self, schedule) -> None:
        # schedule: list of percents, read cyclically
        self.schedule = list(schedule) or [0.0]
        self.reads = 0

    def virtual_memory(self):
        v = self.schedule[self.reads % len(self.schedule)]
        self.reads += 1
        return _VM(v)


def mem_schedule(profile, threshold_pc: float, rng: random.Random | None = None, n=64):
    """Expand a named profile into a list of percents around the threshold."""
    if isinstance(profile, list):
        return profile
    lo = max(0.0, threshold_pc - 7.0)
    hi = min(100.0, threshold_pc + 7.0)
    if profile == "low":
        # strictly below the threshold; impossible when the threshold is 0
        return [lo if lo < threshold_pc else -1.0]
    if profile == "high":
        return [hi]
    if profile == "edge":
        return [threshold_pc]
    if profile == "rising":
        return [lo] * 3 + [threshold_pc] + [hi] * 1000
    if profile == "flap":
        assert rng is not None
        return [pick_mem(rng, lo, threshold_pc, hi) for _ in range(n)]
    raise ValueError(profile)


def pick_mem(rng, lo, thr, hi):
    return rng.choice([lo if lo < thr else -1.0, hi, thr, lo if lo < thr else -1.0, hi])


# --------------------------------------------------------------------------- #
# S2 file system
# --------------------------------------------------------------------------- #


class SimFS:
    """An in-memory tree path -> bytes with fault plan and call counters."""

    _uniq = 0

    def __init__(self, listdir_seed=0, faults=None) -> None:
        self.dirs = {"/", "/sim"}
        self.files: dict[str, bytes] = {}
        self.listdir_seed = listdir_seed
        self.faults = faults or {}  # {"save": {nth: {...}}, "load": {nth: {...}}}
        self.n = {"save": 0, "load": 0, "listdir": 0, "mkdir": 0, "rmtree": 0, "mkdtemp": 0}
        self.fired = []
        self.tmp_n = 0
        self.quiet = 0  # >0 while the harness observes: no counting, no faults

    # numpy ----------------------------------------------------------------- #
    def save(self, file, arr, *args, **kw):
        path = str(file)
        if not path.endswith(".npy"):
            path += ".npy"
        self.n["save"] += 1
        nth = self.n["save"]
        if real_os.path.dirname(path) not in self.dirs:
            raise FileNotFoundError(errno.ENOENT, "No such file or directory", path)
        buf = io.BytesIO()
        real_numpy.save(buf, arr, *args, **kw)
        data = buf.getvalue()
        fault = self.faults.get("save", {}).get(nth) or self.faults.get("save", {}).get(str(nth))
        if fault is not None:
            self.fired.append(("save", nth, fault.get("kind", "enospc")))
            torn = fault.get("torn")
            if torn is not None:
                self.files[path] = data[: max(0, min(len(data) - 1, torn))]
            raise OSError(errno.ENOSPC, "No space left on device", path)
        old = self.files.get(path)
        if isinstance(old, bytearray) and len(old) == len(data):
            old[:] = data  # same file, rewritten: live maps of it see the new content
        else:
            self.files[path] = data

    def load(self, file, *args, **kw):
        path = str(file)
        fault = None
        if not self.quiet:
            self.n["load"] += 1
            nth = self.n["load"]
            fault = self.faults.get("load", {}).get(nth) or self.faults.get("load", {}).get(str(nth))
        if fault is not None:
            self.fired.append(("load", nth, fault.get("kind", "eio")))
            if fault.get("kind") == "vanish":
                self.files.pop(path, None)
            else:
                raise OSError(errno.EIO, "Input/output error", path)
        data = self.files.get(path)
        if data is None:
            raise FileNotFoundError(errno.ENOENT, "No such file or directory", path)
        mmap_mode = kw.get("mmap_mode") or (args[0] if args else None)
        if mmap_mode:
            # a memory map is a live view of the file: emulate it with a view of the
            # stored buffer, which a later save of the same path overwrites in place
            from numpy.lib import format as npf

            if not isinstance(data, bytearray):
                data = self.files[path] = bytearray(data)
            f = io.BytesIO(bytes(data))
            version = npf.read_magic(f)
            shape, fortran, dtype = npf._read_array_header(f, version)
            if dtype.hasobject:
                raise ValueError("Array can't be memory-mapped: Python objects in dtype.")
            arr = real_numpy.frombuffer(data, dtype=dtype, offset=f.tell()).reshape(shape, order="F" if fortran else "C")
            if mmap_mode == "r":
                arr.flags.writeable = False
            self.n["mmap"] = self.n.get("mmap", 0) + 1
            return arr
        return real_numpy.load(io.BytesIO(bytes(data)), *args, **kw)

    # os ---------------------------------------------------------------------- #
    def isdir(self, path):
        return str(path).rstrip("/") in self.dirs or str(path) == "/"

    def exists(self, path):
        return self.isdir(path) or str(path) in self.files

    def isfile(self, path):
        return str(path) in self.files

    def getsize(self, path):
        if str(path) not in self.files:
            raise FileNotFoundError(errno.ENOENT, "No such file or directory", str(path))
        return len(self.files[str(path)])

    def remove(self, path, *a, **k):
        path = str(path)
        if path in self.dirs:
            raise IsADirectoryError(errno.EISDIR, "Is a directory", path)
        if path not in self.files:
            raise FileNotFoundError(errno.ENOENT, "No such file or directory", path)
        del self.files[path]

    def rename(self, src, dst, *a, **k):
        src, dst = str(src), str(dst)
        if src not in self.files:
            raise FileNotFoundError(errno.ENOENT, "No such file or directory", src)
        self.files[dst] = self.files.pop(src)

    def mkdir(self, path, *a, **k):
        path = str(path).rstrip("/")
        self.n["mkdir"] += 1
        if path in self.dirs or path in self.files:
            raise FileExistsError(errno.EEXIST, "File exists", path)
        if real_os.path.dirname(path) not in self.dirs:
            raise FileNotFoundError(errno.ENOENT, "No such file or directory", path)
        self.dirs.add(path)

    def listdir(self, path="."):
        path = str(path).rstrip("/") or "/"
        self.n["listdir"] += 1
        if path not in self.dirs:
            raise FileNotFoundError(errno.ENOENT, "No such file or directory", path)
        prefix = path.rstrip("/") + "/"
        names = set()
        for p in list(self.dirs) + list(self.files):
            if p.startswith(prefix) and p != path:
                names.add(p[len(prefix):].split("/", 1)[0])
        names = sorted(names)
        # the permutation depends on the seed and on the path below the temporary
        # root only (temporary names differ from run to run, like real ones)
        rel = "/".join(path.split("/")[3:]) if path.startswith("/sim/") else path
        random.Random(f"{self.listdir_seed}:{rel}").shuffle(names)
        return names

    def rmtree(self, path, *a, **k):
        path = str(path).rstrip("/")
        self.n["rmtree"] += 1
        if path not in self.dirs:
            raise FileNotFoundError(errno.ENOENT, "No such file or directory", path)
        prefix = path + "/"
        self.dirs = {d for d in self.dirs if d != path and not d.startswith(prefix)}
        self.files = {f: b for f, b in self.files.items() if not f.startswith(prefix)}

    def mkdtemp(self, suffix=None, prefix=None, dir=None):  # noqa: A002
        self.n["mkdtemp"] += 1
        # like the real mkdtemp, never hand out the same name twice in a process:
        # a stale store of an earlier run must not be able to name a live directory
        SimFS._uniq += 1
        path = f"/sim/{prefix or 'tmp'}{SimFS._uniq}"
        self.dirs.add(path)
        return path

    # views ------------------------------------------------------------------- #
    def numpy_proxy(self):
        return Proxy(real_numpy, save=self.save, load=self.load)

    def os_proxy(self):
        path = Proxy(real_os.path, isdir=self.isdir, exists=self.exists, isfile=self.isfile, getsize=self.getsize)
        return Proxy(real_os, path=path, mkdir=self.mkdir, listdir=self.listdir, remove=self.remove, unlink=self.remove,
                     rename=self.rename, replace=self.rename)

    def shutil_proxy(self):
        return Proxy(real_shutil, rmtree=self.rmtree)

    def tempfile_proxy(self):
        return Proxy(real_tempfile, mkdtemp=self.mkdtemp)


# --------------------------------------------------------------------------- #
# S4 clock
# --------------------------------------------------------------------------- #


class SimClock:
    """Virtual nanoseconds for the tracer."""

    def __init__(self, profile="steady", seed=0) -> None:
        self.profile = profile
        self.now = 1_600_000_000_000_000_000
        self.reads = 0
        self.rng = random.Random(seed)

    def time_ns(self):
        self.reads += 1
        p = self.profile
        if p == "steady":
            self.now += 1_000_000
        elif p == "stall":
            if self.reads % 3:
                pass
            else:
                self.now += 1_000
        elif p == "jump+":
            self.now += 10**12 if self.reads % 5 == 0 else 1_000
        elif p == "jump-":
            self.now += -(10**12) if self.reads % 5 == 0 else 1_000
        elif p == "random":
            self.now += self.rng.choice([0, 1, 1000, 10**9, -(10**9), -5])
        return self.now

    def proxy(self):
        return Proxy(real_time, time_ns=self.time_ns)


# --------------------------------------------------------------------------- #
# S6 object identity
# --------------------------------------------------------------------------- #


class SimId:
    """`id` as the code under test sees it, owned by the simulator.

    Real addresses are reused by the allocator at its own discretion, which no
    scenario can replay.  Here an identity is an integer handed out by the
    simulator; when an object dies (deterministically: reference counting, and
    garbage collection only when the scheduler says so) its identity goes to a
    free list and is **reused for the next new object** (LIFO) - the adversarial
    but legal behaviour of an allocator, made a pure function of the scenario."""

    _counter = 1000  # process-wide: identities of different runs never collide

    def __init__(self, reuse=True) -> None:
        self.reuse = reuse
        self._free: list[int] = []
        self._live: dict[int, tuple] = {}
        self.calls = 0
        self.reused = 0

    def __call__(self, obj):
        import weakref

        self.calls += 1
        rid = _real_id(obj)
        entry = self._live.get(rid)
        if entry is not None and entry[1]() is obj:
            return entry[0]
        if self._free and self.reuse:
            sid = self._free.pop()
            self.reused += 1
        else:
            SimId._counter += 1
            sid = SimId._counter
        try:
            ref = weakref.ref(obj, lambda _r, rid=rid, sid=sid: self._dead(rid, sid))
        except TypeError:
            return rid
        self._live[rid] = (sid, ref)
        return sid

    def _dead(self, rid, sid) -> None:
        entry = self._live.get(rid)
        if entry is not None and entry[0] == sid:
            del self._live[rid]
            self._free.append(sid)


_real_id = id


# --------------------------------------------------------------------------- #
# install / uninstall
# --------------------------------------------------------------------------- #


def _dead_rmtree(path, *a, **k):
    if str(path).startswith("/sim/"):
        return None
    return real_shutil.rmtree(path, *a, **k)


def _dead_listdir(path="."):
    if str(path).startswith("/sim"):
        return ["."]
    return real_os.listdir(path)


_DEAD_SHUTIL = Proxy(real_shutil, rmtree=_dead_rmtree)
_DEAD_OS = Proxy(real_os, listdir=_dead_listdir)

_REAL = {}


_ABSENT = object()


def _swap(module, name, value) -> None:
    key = (module, name)
    if key not in _REAL:
        _REAL[key] = module.__dict__.get(name, _ABSENT)
    setattr(module, name, value)


class Env:
    """The simulated environment of one run."""

    def __init__(self, mem=None, fs: SimFS | None = None, clock: SimClock | None = None, ids: SimId | None = None) -> None:
        self.mem = mem
        self.fs = fs
        self.clock = clock
        self.ids = ids

    def install(self) -> None:
        if self.mem is not None:
            _swap(m_holder, "psutil", self.mem)
        if self.fs is not None:
            fs = self.fs
            _swap(m_disk, "numpy", fs.numpy_proxy())
            _swap(m_disk, "os", fs.os_proxy())
            _swap(m_disk, "shutil", fs.shutil_proxy())
            _swap(m_holder, "os", fs.os_proxy())
            _swap(m_sim, "tempfile", fs.tempfile_proxy())
            _swap(m_dump, "numpy", fs.numpy_proxy())
            _swap(m_dump, "os", fs.os_proxy())
        if self.clock is not None:
            _swap(m_tracer, "time", self.clock.proxy())
        if self.ids is not None:
            # every `id(...)` evaluated by these modules (a module global shadows the builtin)
            import openfisca_core.taxbenefitsystems.tax_benefit_system as m_tbs
            import openfisca_core.tools.test_runner as m_runner
            import openfisca_core.reforms.reform as m_reform

            for m in (m_tbs, m_runner, m_reform):
                _swap(m, "id", self.ids)

    @staticmethod
    def uninstall() -> None:
        for (module, name), value in _REAL.items():
            if value is _ABSENT:
                module.__dict__.pop(name, None)
            else:
                setattr(module, name, value)
        _REAL.clear()
        # Finalizers of spill stores created under a SimFS may run after the
        # run is over (garbage cycles): they must never reach the real file
        # system with a simulated path.
        m_disk.shutil = _DEAD_SHUTIL
        m_disk.os = _DEAD_OS

    def __enter__(self):
        self.install()
        return self

    def __exit__(self, *exc):
        # run pending finalizers while the simulated file system is still in place
        gc.collect()
        self.uninstall()
        return False


def installed() -> bool:
    return bool(_REAL)


def listdir_permuter(seed):
    """An `os` proxy for modules that read real directories: only the order changes."""

    def listdir(path="."):
        names = sorted(real_os.listdir(path))
        random.Random(f"{seed}:{real_os.path.basename(str(path))}").shuffle(names)
        return names

    return Proxy(real_os, listdir=listdir)
