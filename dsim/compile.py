"""Compile a world specification to a real TaxBenefitSystem.

The specification is turned into Python source text — one `class x(Variable)`
per variable, as a country package would have — executed with a `linecache`
entry so that `inspect.getsource` works.
"""

from __future__ import annotations

import hashlib
import json
import linecache

from . import use_repo

use_repo()

import numpy  # noqa: E402

from openfisca_core import entities as of_entities  # noqa: E402
from openfisca_core.parameters import ParameterNode  # noqa: E402
from openfisca_core.taxbenefitsystems import TaxBenefitSystem  # noqa: E402

from .ctx import CTX  # noqa: E402

HEADER = '''\
import datetime
import numpy
from openfisca_core.variables import Variable
from openfisca_core.periods import DateUnit
from openfisca_core.indexed_enums import Enum, EnumArray
from openfisca_core.holders import set_input_divide_by_period, set_input_dispatch_by_period
from openfisca_core.simulations import calculate_output_add, calculate_output_divide
from openfisca_core import periods

from openfisca_core.populations import ADD, DIVIDE
F32 = numpy.float32
D0 = numpy.datetime64("1970-01-01", "D")
STRS = numpy.array(["", "a", "bb", "ccc", "dddd", "eeeee", "ffffff", "ggggggg"])
LIM = F32(1.0e6)


def inpl(x):
    """The formula goes on working in the array an ADD / DIVIDE read gave it."""
    x += 1
    return x


def num(x):
    """Numeric (float32) view of any value a read can return."""
    if isinstance(x, EnumArray):
        return x.view(numpy.ndarray).astype(F32)
    kind = x.dtype.kind
    if kind == "M":
        return ((x - D0).astype(numpy.int64) % 1000).astype(F32)
    if kind in "OSU":
        return numpy.array([len(s) for s in x], dtype=F32)
    return x.astype(F32)


def vec(population, x):
    if isinstance(x, numpy.ndarray) and x.ndim == 1:
        return x.astype(F32)
    return numpy.full(population.count, x, dtype=F32)


def fin(population, x):
    return numpy.clip(vec(population, x), -LIM, LIM)


def mul(a, b):
    return numpy.clip(a * b, -LIM, LIM)


def div(population, a, b):
    """a / b per entity; 0 / 0 is NaN and x / 0 infinite, silently (as numpy does)."""
    with numpy.errstate(all="ignore"):
        return (vec(population, a) / vec(population, b)).astype(F32)


def idx(x, n):
    return numpy.abs(x).astype(numpy.int64) % n


def agg(population, kind, role, x):
    if kind == "sum":
        return population.sum(x, role=role)
    if kind == "min":
        return population.min(x, role=role)
    if kind == "max":
        return population.max(x, role=role)
    if kind == "any":
        return population.any(x > 0, role=role).astype(F32)
    if kind == "all":
        return population.all(x > 0, role=role).astype(F32)
    if kind == "first":
        return population.value_from_first_person(x)
    if kind == "nb":
        return population.nb_persons().astype(F32)
    raise ValueError(kind)

'''

HEADER_IMPORTS = "\n"

_UNIT = {
    "month": "DateUnit.MONTH",
    "year": "DateUnit.YEAR",
    "day": "DateUnit.DAY",
    "week": "DateUnit.WEEK",
    "weekday": "DateUnit.WEEKDAY",
    "eternity": "DateUnit.ETERNITY",
}
_TYPE = {
    "float": "float",
    "int": "int",
    "bool": "bool",
    "enum": "Enum",
    "date": "datetime.date",
    "str": "str",
}


def pref_src(pref) -> str:
    if isinstance(pref, str):
        if pref == "this":
            return "period"
        return f"period.{pref}"
    if pref[0] == "off":
        return f"period.offset({pref[1]}, {pref[2]!r})"
    if pref[0] == "fixed":
        return f"periods.period({pref[1]!r})"
    if pref[0] == "win":
        # the n months (or days, or years) ending with the formula's own period
        return f"periods.Period((periods.DateUnit({pref[2]!r}), period.start.offset({-(pref[1] - 1)}, {pref[2]!r}), {pref[1]}))"
    raise ValueError(pref)


class _ExprCompiler:
    def __init__(self, world, var) -> None:
        self.world = world
        self.var = var
        self.uses_params = False
        self.n_reads = 0

    def role(self, gk, rk):
        return "None" if rk is None else f"ROLE[{gk!r}, {rk!r}]"

    def c(self, e) -> str:
        k = e[0]
        if k == "c":
            return repr(float(e[1]))
        if k == "rd":
            _, var, pref, opt, via = e
            self.n_reads += 1
            per = pref_src(pref)
            inplace = bool(opt) and opt.endswith("_INPLACE")
            o = "None" if opt is None else {"ADD": "ADD", "DIVIDE": "DIVIDE"}[opt.split("_")[0]]
            w = "inpl" if inplace else ""
            if via is None:
                return f"num({w}(_f.rd(population, {var!r}, {per}, {o})))"
            if via[0] == "proj":
                return f"num({w}(_f.rd(population.{via[1]}, {var!r}, {per}, {o})))"
            gk = self.var["entity"]
            inner = f"num({w}(_f.rd(population.members, {var!r}, {per}, {o})))"
            if via[0] == "agg":
                return f"agg(population, {via[1]!r}, {self.role(gk, via[2])}, {inner})"
            if via[0] == "uniq":
                return f"population.value_from_person({inner}, {self.role(gk, via[1])})"
            raise ValueError(via)
        if k == "p":
            self.uses_params = True
            return f"F32(_f.prm(parameters, period, {e[1]!r}))"
        if k == "pin":
            self.uses_params = True
            node = "parameters(period)" + "".join(f".{part}" for part in e[1].split(".") if part)
            return f"F32(1.0 if {e[2]!r} in {node} else 0.0)"
        if k == "sc":
            self.uses_params = True
            return f"_f.prm(parameters, period, {e[1]!r}).calc(vec(population, {self.c(e[2])})).astype(F32)"
        if k == "b":
            _, op, a, b = e
            A, B = self.c(a), self.c(b)
            if op in "+-":
                return f"({A} {op} {B})"
            if op == "*":
                return f"mul({A}, {B})"
            if op == "/":
                return f"div(population, {A}, {B})"
            if op == "min":
                return f"numpy.minimum({A}, {B})"
            if op == "max":
                return f"numpy.maximum({A}, {B})"
            raise ValueError(op)
        if k == "w":
            _, (cop, a, b), x, y = e
            return f"numpy.where({self.c(a)} {cop} {self.c(b)}, {self.c(x)}, {self.c(y)})"
        if k == "im":
            return f"({self.c(e[2])} if period.start.month == {e[1]} else {self.c(e[3])})"
        if k == "iy":
            return f"({self.c(e[2])} if period.start.year == {e[1]} else {self.c(e[3])})"
        raise ValueError(e)


def formula_src(world, var, start, expr) -> str:
    comp = _ExprCompiler(world, var)
    annual = bool(var.get("annualized"))
    t = var["type"]
    if expr[0] == "c" and t in ("float", "int"):
        body = repr(float(expr[1]) if t == "float" else int(expr[1]))  # scalar, engine broadcasts
    else:
        e = f"fin(population, {comp.c(expr)})"
        if t in ("float", "int"):
            body = e
        elif t == "bool":
            body = f"{e} > 1.0"
        elif t == "enum":
            en = next(x for x in world["enums"] if x["name"] == var["enum"])
            body = f"idx({e}, {len(en['members'])})"
        elif t == "date":
            body = f"D0 + idx({e}, 20000).astype('timedelta64[D]')"
            if var.get("date_res"):
                # the rule works in whole months (or years): what it returns is a date array
                # of that resolution, which the engine brings to days
                body = f"({body}).astype('datetime64[{var['date_res']}]')"
        elif t == "str":
            body = f"STRS[idx({e}, 8)]"
        else:
            raise ValueError(t)
    name = "formula" if start == "0001-01-01" else "formula_" + start.replace("-", "_")
    args = "population, period, parameters" if comp.uses_params else "population, period"
    pre = ""
    if annual:
        # spec-level meaning of an annualised variable, written from the statement:
        # months other than January yield that year's January value
        pre = "        period = period.this_year.first_month if period.start.month != 1 else period\n"
        if isinstance(var["annualized"], dict):
            a, b = var["annualized"]["within"]
            pre = f"        period = period.this_year.first_month if period.start.month != 1 and {a!r} <= str(period.start) <= {b!r} else period\n"
    return (
        f"    def {name}({args}):\n"
        f"{pre}"
        f"        _f = ctx.enter({var['name']!r}, period)\n"
        f"        return _f.leave({body})\n"
    )


def variable_src(world, var, partial=None) -> str:
    """partial: the attributes an *update* redefines (the rest is inherited from
    the variable being updated); `var` is then the merged specification, used for
    typing the formulas."""
    lines = [f"class {var['name']}(Variable):"]
    if partial is not None:
        if "default" in partial and var["type"] != "enum":
            if var["type"] == "date":
                y, m, d = (int(x) for x in partial["default"].split("-"))
                lines.append(f"    default_value = datetime.date({y}, {m}, {d})")
            else:
                lines.append(f"    default_value = {partial['default']!r}")
        if partial.get("end"):
            lines.append(f"    end = {partial['end']!r}")
        if partial.get("label"):
            lines.append(f"    label = {partial['label']!r}")
        lines.append("    pass")
        lines.append("")
        out = "\n".join(lines) + "\n"
        for start in sorted(partial.get("formulas", {})):
            out += formula_src(world, var, start, partial["formulas"][start]) + "\n"
        return out
    lines.append(f"    value_type = {_TYPE[var['type']]}")
    lines.append(f"    entity = ENT[{var['entity']!r}]")
    # (a definition period may also be declared by its name: DateUnit is a str enumeration)
    lines.append(f"    definition_period = {var['unit']!r}" if var.get("unit_as_text") else f"    definition_period = {_UNIT[var['unit']]}")
    lines.append(f"    label = {var.get('label', 'label of ' + var['name'])!r}")
    if var["type"] == "enum":
        lines.append(f"    possible_values = {var['enum']}")
        lines.append(f"    default_value = {var['enum']}.{var['default']}")
    elif "default" in var:
        if var["type"] == "date":
            y, m, d = (int(x) for x in var["default"].split("-"))
            lines.append(f"    default_value = datetime.date({y}, {m}, {d})")
        else:
            lines.append(f"    default_value = {var['default']!r}")
    if var.get("max_length"):
        lines.append(f"    max_length = {var['max_length']}")
    if var.get("end"):
        lines.append(f"    end = {var['end']!r}")
    if var.get("set_input"):
        lines.append(f"    set_input = set_input_{var['set_input']}_by_period")
    if var.get("calculate_output"):
        lines.append(f"    calculate_output = calculate_output_{var['calculate_output']}")
    lines.append("")
    out = "\n".join(lines) + "\n"
    if var.get("neutralized"):
        return out  # always its default: no formula
    for start in sorted(var.get("formulas", {})):
        out += formula_src(world, var, start, var["formulas"][start]) + "\n"
    return out


def module_src(world) -> str:
    out = HEADER
    for en in world["enums"]:
        out += f"class {en['name']}(Enum):\n"
        for m in en["members"]:
            out += f"    {m} = {m!r}\n"
        out += "\n\n"
    for var in world["variables"]:
        out += variable_src(world, var) + "\n"
    return out


def parameters_data(params: dict) -> dict:
    root: dict = {}
    for path, spec in params.items():
        node = root
        parts = path.split(".")
        for part in parts[:-1]:
            node = node.setdefault(part, {})
        if isinstance(spec, dict):
            leaf = {
                "brackets": [
                    {
                        k: {d: {"value": v} for d, v in hist}
                        for k, hist in bracket.items()
                    }
                    for bracket in spec["brackets"]
                ]
            }
            if spec.get("type"):
                leaf["metadata"] = {"type": spec["type"]}
        else:
            leaf = {"values": {d: {"value": v} for d, v in spec}}
        node[parts[-1]] = leaf
    return root


def build_entities(world):
    ents = []
    for e in world["entities"]:
        if e.get("is_person"):
            ents.append(
                of_entities.build_entity(
                    key=e["key"], plural=e["plural"], label=e["key"], is_person=True
                )
            )
        else:
            roles = []
            for r in e["roles"]:
                d = {"key": r["key"], "plural": r["plural"], "label": r["key"]}
                if r.get("max") is not None:
                    d["max"] = r["max"]
                if r.get("subroles"):
                    d["subroles"] = list(r["subroles"])
                roles.append(d)
            ents.append(
                of_entities.build_entity(
                    key=e["key"], plural=e["plural"], label=e["key"], roles=roles
                )
            )
    return ents


class World:
    """A compiled world: the real TaxBenefitSystem plus what the harness needs."""

    def __init__(self, spec: dict, ctx=CTX) -> None:
        self.spec = spec
        self.digest = hashlib.blake2b(
            json.dumps(spec, sort_keys=True).encode(), digest_size=8
        ).hexdigest()
        self.src = module_src(spec)
        self.filename = f"<dsim-world-{self.digest}>"
        self.entities = build_entities(spec)
        self.ent = {e.key: e for e in self.entities}
        roles = {}
        for e in self.entities:
            if e.is_person:
                continue
            for role in e.roles:
                roles[e.key, role.key] = role
                for sub in role.subroles or ():
                    roles[e.key, sub.key] = sub
        self.ns = {"ENT": self.ent, "ROLE": roles, "ctx": ctx, "__name__": f"dsim_world_{self.digest}"}
        linecache.cache[self.filename] = (
            len(self.src),
            None,
            self.src.splitlines(True),
            self.filename,
        )
        exec(compile(self.src, self.filename, "exec"), self.ns)  # noqa: S102
        self.extra_files = []
        self.var_specs = {v["name"]: v for v in spec["variables"]}
        self.var_classes = [self.ns[v["name"]] for v in spec["variables"]]
        self.tbs = self.make_system()

    def make_system(self, cls=TaxBenefitSystem) -> TaxBenefitSystem:
        tbs = cls(self.entities)
        tbs.add_variables(*self.var_classes)
        if self.spec.get("parameters"):
            tbs.parameters = ParameterNode("", data=parameters_data(self.spec["parameters"]))
        return tbs

    def compile_variable(self, var: dict, partial: dict | None = None):
        """A (possibly partial) Variable class in this world's namespace, for reforms."""
        World._n_extra += 1
        src = HEADER_IMPORTS + variable_src(self.spec_for_typing(var), var, partial)
        filename = f"<dsim-world-{self.digest}-x{World._n_extra}>"
        linecache.cache[filename] = (len(src), None, src.splitlines(True), filename)
        self.extra_files.append(filename)
        ns = dict(self.ns)
        exec(compile(src, filename, "exec"), ns)  # noqa: S102
        return ns[var["name"]]

    def spec_for_typing(self, var):
        return self.spec

    _n_extra = 0

    def close(self) -> None:
        linecache.cache.pop(self.filename, None)
        for f in self.extra_files:
            linecache.cache.pop(f, None)


def tile(values, count, var_spec, world: World):
    """Input values (a short list from the scenario) tiled to the population count."""
    vals = [values[i % len(values)] for i in range(count)]
    t = var_spec["type"]
    if t == "date":
        return numpy.array(vals, dtype="datetime64[D]")
    if t == "float":
        # (non-finite values travel as text in scenario files: "nan", "inf", "-inf")
        return numpy.array([float(v) for v in vals], dtype=numpy.float32)
    if t == "int":
        return numpy.array(vals, dtype=numpy.int32)
    if t == "bool":
        return numpy.array(vals, dtype=bool)
    if t == "str":
        return numpy.array(vals, dtype=object)
    if t == "enum":
        return numpy.array(vals)  # names; the holder encodes them
    raise ValueError(t)
