"""Parameter worlds for C06 / C07: generated parameter trees, their loading from a
dict or from a YAML directory (real files, listing order interposed), a small
executable dated-list model, and a rule system whose formulas read parameters."""

from __future__ import annotations

import copy
import datetime
import os
import random
import shutil

from . import use_repo

use_repo()

import numpy  # noqa: E402
import yaml  # noqa: E402

from openfisca_core import entities as of_entities  # noqa: E402
from openfisca_core import periods  # noqa: E402
from openfisca_core.indexed_enums import Enum  # noqa: E402
from openfisca_core.parameters import ParameterNode  # noqa: E402
from openfisca_core.periods import DateUnit  # noqa: E402
from openfisca_core.taxbenefitsystems import TaxBenefitSystem  # noqa: E402
from openfisca_core.variables import Variable  # noqa: E402

from .rng import chance, pick

# --------------------------------------------------------------------------- #
# tree generation (JSON spec)
# --------------------------------------------------------------------------- #


ERAS = {
    # years of the entry dates of a tree; "ancient": before and around the year 1000 (a
    # date text shorter than ten characters orders differently), "far": a century ahead
    # and the last four-digit years
    "ancient": [(1, 9), (10, 99), (100, 999), (990, 1010), (1000, 1100)],
    "far": [(2090, 2110), (2400, 2401), (8990, 8998)],
}


def rand_date(rng: random.Random, lo=2008, hi=2020, era=None) -> str:
    if era in ERAS:
        lo, hi = pick(rng, ERAS[era])
    y = rng.randint(lo, hi)
    m = rng.randint(1, 12)
    d = pick(rng, [1, 1, 1, 15, 28, 10])
    return f"{y:04d}-{m:02d}-{d:02d}"


def gen_leaf(rng, *, always=False, allow_null=True, lo=0.0, hi=10.0, boolean=False, era=None, p_inf=0.0, long=False):
    """[[date, value|None|'expected'], ...] (unordered on purpose)."""
    n = rng.randint(1, 5)
    if long:
        n = rng.randint(17, 40)  # a parameter indexed every year for decades: a long history
    dates = set()
    first = "0001-01-01" if era == "ancient" else "1900-01-01"
    if always:
        dates.add(first)
    while len(dates) < n:
        dates.add(rand_date(rng, era=era) if n <= 5 else rand_date(rng, 1960, 2030, era=era))
    out = []
    for d in sorted(dates):
        r = rng.random()
        if allow_null and r < 0.15 and d != first:
            v = None
        elif r < 0.22 and d != first and not always:
            v = "expected"
        elif boolean:
            v = rng.random() < 0.5
        elif p_inf and rng.random() < p_inf:
            # unbounded ceilings and floors are written .inf / -.inf in parameter files
            v = pick(rng, [float("inf"), float("-inf")])
        else:
            v = round(rng.uniform(lo, hi), 2)
        out.append([d, v])
    rng.shuffle(out)
    return {"kind": "leaf", "values": out}


def gen_tree(rng: random.Random, era=None, p_inf=0.0) -> dict:
    L = dict(era=era, p_inf=p_inf)
    # (one tree in seven has one parameter with a long history)
    long_one = pick(rng, ["p0", "p1", "p2"]) if chance(rng, 0.15) else None
    tree = {
        "p0": gen_leaf(rng, long=long_one == "p0", **L),
        "g": {"kind": "node", "children": {"p1": gen_leaf(rng, long=long_one == "p1", **L), "h": {"kind": "node", "children": {"p2": gen_leaf(rng, long=long_one == "p2", **L)}}}},
    }
    brackets = []
    for i in range(rng.randint(1, 3)):
        brackets.append(
            {
                "threshold": gen_leaf(rng, lo=100.0 * i, hi=100.0 * i + 50, allow_null=chance(rng, 0.5), era=era)["values"],
                "rate": gen_leaf(rng, lo=0.0, hi=1.0, era=era)["values"],
            }
        )
    tree["sc"] = {"kind": "scale", "brackets": brackets}
    # the other kinds of scale: amounts per bracket (marginal, or a single amount), and
    # average rates
    for name, key in (("sa", "amount"), ("sv", "average_rate")):
        if not chance(rng, 0.5):
            continue
        bs = []
        for i in range(rng.randint(1, 3)):
            bs.append({
                "threshold": gen_leaf(rng, lo=100.0 * i, hi=100.0 * i + 50, allow_null=chance(rng, 0.5), era=era)["values"],
                key: gen_leaf(rng, lo=0.0, hi=(500.0 if key == "amount" else 1.0), era=era)["values"],
            })
        tree[name] = {"kind": "scale", "brackets": bs}
        if key == "amount" and chance(rng, 0.5):
            tree[name]["type"] = "single_amount"
    tree["zones"] = {
        "kind": "node",
        "children": {f"z{i}": gen_leaf(rng, always=True, allow_null=False, **L) for i in range(rng.randint(2, 4))},
    }
    # a group whose members are named by numbers of one and two digits (ranks, numbers of
    # children, ...): key vectors then come as integers, or as an object array of text
    tree["ranks"] = {
        "kind": "node",
        "children": {n: gen_leaf(rng, always=True, allow_null=False, **L) for n in ["1", "2", "9", "10", "11", "12"][: rng.randint(4, 6)]},
    }
    tree["nz"] = {
        "kind": "node",
        "children": {
            z: {"kind": "node", "children": {k: gen_leaf(rng, always=True, allow_null=False, **L) for k in ("x", "y")}}
            for z in ("za", "zb", "zc")[: rng.randint(2, 3)]
        },
    }
    # a group of flags (bool values); only the first is defined at every date
    tree["flags"] = {
        "kind": "node",
        "children": {"f0": gen_leaf(rng, always=True, allow_null=False, boolean=True, era=era), "f1": gen_leaf(rng, boolean=True, era=era), "f2": gen_leaf(rng, boolean=True, era=era)},
    }
    cuts = sorted({rand_date(rng, 2009, 2019) for _ in range(rng.randint(1, 3))})
    asof = {"before_" + cuts[0].replace("-", "_"): gen_leaf(rng, always=True, allow_null=False)}
    for c in cuts:
        asof["after_" + c.replace("-", "_")] = gen_leaf(rng, always=True, allow_null=False)
    tree["asof"] = {"kind": "node", "children": asof}
    return tree


def leaf_paths(tree, prefix=()):
    out = []
    for name, node in tree.items():
        if node["kind"] == "leaf":
            out.append((*prefix, name))
        elif node["kind"] == "node":
            out.extend(leaf_paths(node["children"], (*prefix, name)))
    return out


def spec_at(tree, path):
    node = {"kind": "node", "children": tree}
    for part in path:
        node = node["children"][part]
    return node


# --------------------------------------------------------------------------- #
# spec -> loader input
# --------------------------------------------------------------------------- #


def leaf_data(values):
    out = {}
    for d, v in values:
        out[d] = {"expected": 1.0} if v == "expected" else {"value": v}
    return {"values": out}


def tree_data(tree) -> dict:
    out = {}
    for name, node in tree.items():
        if node["kind"] == "leaf":
            out[name] = leaf_data(node["values"])
        elif node["kind"] == "scale":
            out[name] = {
                "brackets": [
                    {k: leaf_data(v)["values"] for k, v in b.items()} for b in node["brackets"]
                ]
            }
            if node.get("type"):
                out[name]["metadata"] = {"type": node["type"]}
        else:
            out[name] = tree_data(node["children"])
    return out


def write_dir(tree, directory, rng: random.Random | None = None):
    """Write the tree as a YAML parameter directory; nodes become directories
    (children then come in os.listdir order) or, sometimes, a single file."""
    os.makedirs(directory, exist_ok=True)
    for name, node in tree.items():
        if node["kind"] == "node" and not (rng is not None and chance(rng, 0.2)):
            write_dir(node["children"], os.path.join(directory, name), rng)
        else:
            data = tree_data({name: node})[name]
            with open(os.path.join(directory, name + ".yaml"), "w") as f:
                yaml.safe_dump(_yamlable(data), f, default_flow_style=False, sort_keys=False)


def _yamlable(x):
    if isinstance(x, dict):
        return {(_as_date(k)): _yamlable(v) for k, v in x.items()}
    if isinstance(x, list):
        return [_yamlable(v) for v in x]
    return x


def _as_date(k):
    if isinstance(k, str) and len(k) == 10 and k[4] == "-" and k[7] == "-":
        return datetime.date.fromisoformat(k)
    return k


_UNIQ = 0


def load_tree(tree, how, scratch, listdir_seed=0, rng=None):
    """Return a ParameterNode built from the spec: 'dict' or 'dir' (real files,
    `os.listdir` of the loader permuted by the seed)."""
    if how == "dict":
        return ParameterNode("", data=tree_data(tree))
    import openfisca_core.parameters.parameter_node as m_pnode

    from . import seams

    global _UNIQ
    _UNIQ += 1
    # the permutation is seeded by directory *basenames*: keep them run-independent
    directory = os.path.join(scratch, f"t{_UNIQ}", "root")
    write_dir(tree, directory, rng)
    real = m_pnode.os
    m_pnode.os = seams.listdir_permuter(listdir_seed)
    try:
        return ParameterNode("", directory_path=directory)
    finally:
        m_pnode.os = real
        shutil.rmtree(os.path.dirname(directory), ignore_errors=True)


# --------------------------------------------------------------------------- #
# the dated-list model (DESIGN 4.2)
# --------------------------------------------------------------------------- #


class LeafModel:
    """Ascending list of (date, value); `expected` placeholders are not entries."""

    def __init__(self, values) -> None:
        self.entries = sorted([d, v] for d, v in values if v != "expected")

    def at(self, d: str):
        out = None
        for date, v in self.entries:
            if date <= d:
                out = v
            else:
                break
        return out

    def update(self, start: str, stop: str | None, value) -> None:
        if stop is not None:
            nxt = (datetime.date.fromisoformat(stop) + datetime.timedelta(days=1)).isoformat()
            after = self.at(nxt)
            keep = [e for e in self.entries if e[0] < start or e[0] > stop]
            keep.append([start, value])
            if not any(e[0] == nxt for e in keep):
                keep.append([nxt, after])
        else:
            keep = [e for e in self.entries if e[0] < start]
            keep.append([start, value])
        self.entries = sorted(keep)

    def dates(self):
        return [e[0] for e in self.entries]


def shift(d: str, days: int) -> str:
    try:
        return (datetime.date.fromisoformat(d) + datetime.timedelta(days=days)).isoformat()
    except OverflowError:  # before 0001-01-01 / after 9999-12-31: stay put
        return d


def period_bounds(text: str):
    """(start, stop) ISO dates of a period text (year / month / day units), own calendar."""
    from .checks.c16 import end_exclusive, parse_period

    unit, start, size = parse_period(text)
    stop = end_exclusive(unit, start, size) - datetime.timedelta(days=1)
    return start.isoformat(), stop.isoformat()


# --------------------------------------------------------------------------- #
# a rule system whose formulas read parameters
# --------------------------------------------------------------------------- #

CUR = {"path": ("p0",), "keys": None, "group": ("zones",)}


class Zone(Enum):
    z0 = "z0"
    z1 = "z1"
    z2 = "z2"
    z3 = "z3"


def make_system(parameters: ParameterNode) -> TaxBenefitSystem:
    person = of_entities.build_entity(key="person", plural="persons", label="p", is_person=True)

    class rp(Variable):
        value_type = float
        entity = person
        definition_period = DateUnit.DAY
        label = "reads the parameter CUR['path'] at the period's first day"

        def formula(population, period, parameters):
            node = parameters(period)
            for part in CUR["path"]:
                node = getattr(node, part)
            return node

    class rp2(Variable):
        value_type = float
        entity = person
        definition_period = DateUnit.DAY
        label = "another variable reading the parameter CUR['path']"

        def formula(population, period, parameters):
            node = parameters(period)
            for part in CUR["path"]:
                node = getattr(node, part)
            return node

    class rpz(Variable):
        value_type = float
        entity = person
        definition_period = DateUnit.DAY
        label = "fancy-indexes the group CUR['group'] by CUR['keys']"

        def formula(population, period, parameters):
            node = parameters(period)
            for part in CUR["group"]:
                node = getattr(node, part)
            return node[CUR["keys"]]

    tbs = TaxBenefitSystem([person])
    tbs.add_variables(rp, rp2, rpz)
    tbs.parameters = parameters
    return tbs


def weekday_text(date: str) -> str:
    """The same day spelled as an ISO week date (a legal instant)."""
    y, w, d = datetime.date.fromisoformat(date).isocalendar()
    return f"{y:04d}-W{w:02d}-{d}"


def read_direct(node, path, date):
    """Route (b): the tree itself."""
    for part in path:
        node = getattr(node, part)
    return node(date)
