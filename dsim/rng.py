"""One integer decides everything: named PRNG streams derived from a run seed."""

from __future__ import annotations

import hashlib
import random


def derive(seed: int, name: str) -> int:
    h = hashlib.blake2b(f"{seed}:{name}".encode(), digest_size=8).digest()
    return int.from_bytes(h, "big")


class Streams:
    """Independent streams: drawing from one never shifts another."""

    def __init__(self, seed: int) -> None:
        self.seed = seed
        self._streams: dict[str, random.Random] = {}

    def __getitem__(self, name: str) -> random.Random:
        rng = self._streams.get(name)
        if rng is None:
            rng = self._streams[name] = random.Random(derive(self.seed, name))
        return rng


def run_seed(base: int, index: int) -> int:
    return base * 1_000_003 + index


def hash_seed_for_lane(base: int, lane: int) -> int:
    """PYTHONHASHSEED of a lane: a function of VERIF_SEED and the lane only."""
    return 1 + derive(base, f"lane{lane}") % 4096


def steps(rng: random.Random, lo: int, hi: int, p_long: float = 0.07, factor: int = 4) -> int:
    """How many operations a scenario has: lo..hi, and for one scenario in fifteen a long
    history (up to `factor` times hi) - things that accumulate, fill up or wear out only
    show after a few dozen operations of one kind on the same object."""
    if rng.random() < p_long:
        return rng.randint(hi + 1, hi * factor)
    return rng.randint(lo, hi)


def chance(rng: random.Random, p: float) -> bool:
    return rng.random() < p


def pick(rng: random.Random, seq):
    return seq[rng.randrange(len(seq))]


def weighted(rng: random.Random, pairs):
    """pairs: list of (item, weight)."""
    total = sum(w for _, w in pairs)
    x = rng.random() * total
    for item, w in pairs:
        x -= w
        if x < 0:
            return item
    return pairs[-1][0]
