"""World generator: a JSON specification of a rule system, a population and inputs.

Everything returned is plain JSON (lists / dicts / str / numbers) so that a
scenario file is self-contained.  See DESIGN 3.3 and Appendix A.
"""

from __future__ import annotations

import random

from .rng import chance, pick, weighted

TYPES = ("float", "int", "bool", "enum", "date", "str")
YEARS = (2017, 2018, 2019)

STR_POOL = ["", "a", "bb", "ccc", "dddd", "eeeee", "Zürich", "x y"]

# "Wide" worlds (a per-scenario swarm knob, DESIGN 3.4): sizes, counts and data values
# beyond what small hand-written examples reach - populations around powers of two,
# enumerations with many members (never more than 256: indices travel as uint8 on the
# unchanged tree, which is C15's business), extreme / signed-zero / non-finite numbers,
# long and non-ASCII text, dates before 1970 and far ahead.
WIDE_SIZES = {
    "quick": [8, 9, 15, 16, 17, 24, 31, 32, 33],
    "thorough": [8, 9, 15, 16, 17, 31, 32, 33, 63, 64, 65, 127, 128, 129, 130, 255, 256, 257, 300],
}
# (arrays of more than 4 KiB / 64 KiB: block sizes, "small enough to ..." fast paths)
HUGE_SIZES = {"quick": [520, 1030], "thorough": [520, 1030, 2050, 4100, 16500]}
WIDE_ENUM_SIZES = [12, 40, 127, 128, 130, 200, 256]
SPECIAL = {
    "float": [-0.0, 1e-7, -1e-7, 16777217.0, 3.0e38, -3.0e38, 0.1, 1e20, "nan", "inf", "-inf"],
    "int": [2147483647, -2147483648, 2147483646, 65536, 32768, 255, 256, -1],
    "date": ["1969-12-31", "1970-01-01", "1900-02-28", "0001-01-01", "2999-12-31", "2262-04-12", "1677-09-20"],
    "str": ["", " ", "é" * 3, "a" * 300, "日本語", "tab\tsep", "O'Neil \"q\"", "x" * 9, "nul\x00in", "Ünï"],
}


def wide_knob(rng: random.Random, tier: str, p: float, cap: int = 1030) -> dict | None:
    """Drawn once per scenario; None for an ordinary (narrow) world.  cap: the largest
    population the check can afford (checks that build many simulations per scenario
    stay below the huge sizes)."""
    if not chance(rng, p):
        return None
    t = "thorough" if tier == "thorough" else "quick"
    sizes = HUGE_SIZES[t] if chance(rng, 0.15) else WIDE_SIZES[t]
    sizes = [n for n in sizes if n <= cap] or [n for n in WIDE_SIZES[t] if n <= cap]
    return {
        "persons": sizes if chance(rng, 0.7) else None,
        "special": pick(rng, [0.0, 0.3, 0.6]),
        "nonfinite": chance(rng, 0.5),
        "enum": chance(rng, 0.5),
    }


# --------------------------------------------------------------------------- #
# entities
# --------------------------------------------------------------------------- #


def gen_entities(rng: random.Random, n_groups=None) -> list[dict]:
    ents = [{"key": "person", "plural": "persons", "is_person": True}]
    n_groups = n_groups if n_groups is not None else weighted(rng, [(1, 6), (2, 3)])
    for g in range(n_groups):
        key = ("hh", "fam")[g]
        n_roles = rng.randint(1, 3)
        roles = []
        for r in range(n_roles):
            rk = f"{key}r{r}"
            role = {"key": rk, "plural": rk + "s"}
            if r == 0 and chance(rng, 0.6):
                role["max"] = 1
            elif r == 0 and chance(rng, 0.4):
                # the *first* role is an umbrella for two sub-roles (the default role of a
                # person left out of the groups is then the first sub-role)
                role["max"] = 2
                role["subroles"] = [rk + "a", rk + "b"]
            elif r == 1 and chance(rng, 0.3):
                role["max"] = 2
                if chance(rng, 0.5):
                    role["subroles"] = [rk + "a", rk + "b"]
            roles.append(role)
        ents.append({"key": key, "plural": key + "s", "is_person": False, "roles": roles})
    return ents


def flattened_roles(ent: dict) -> list[dict]:
    """The roles persons can actually hold (sub-roles replace their parent)."""
    out = []
    for role in ent.get("roles", []):
        if role.get("subroles"):
            for sr in role["subroles"]:
                out.append({"key": sr, "max": 1, "parent": role["key"]})
        else:
            out.append(role)
    return out


# --------------------------------------------------------------------------- #
# parameters (simple tree used by the simulation-level checks)
# --------------------------------------------------------------------------- #


def gen_parameters(rng: random.Random) -> dict:
    """path -> dated list or scale.  `late.*` is undefined before 2018 (F4)."""

    def value():
        # (a rate of zero is a value like any other)
        return 0.0 if chance(rng, 0.15) else round(rng.uniform(0, 3), 2)

    def history(first="1900-01-01"):
        out = [[first, value()]]
        if chance(rng, 0.06):
            # uprated every few months for years: a long history
            for k in range(rng.randint(16, 30)):
                y, m = divmod(k * 2, 12)
                d = f"{2015 + y}-{m + 1:02d}-01"
                if d > first:
                    out.append([d, value()])
            return out
        for y in YEARS:
            if chance(rng, 0.4):
                m = rng.randint(1, 12)
                out.append([f"{y}-{m:02d}-01", value()])
        return out

    params = {
        "p0": history(),
        "g.p1": history(),
        "g.h.p2": history(),
        "late.p3": history("2018-01-01"),
    }
    brackets = []
    thr = 0.0
    for _ in range(rng.randint(1, 3)):
        brackets.append(
            {
                "threshold": [["1900-01-01", thr]],
                "rate": history(),
            }
        )
        thr += rng.choice([10.0, 50.0, 100.0])
    params["sc.s0"] = {"brackets": brackets}
    return params


# --------------------------------------------------------------------------- #
# variables and formula expressions
# --------------------------------------------------------------------------- #

_UNIT_W = [("month", 60), ("year", 25), ("eternity", 8), ("day", 7)]


def _earlier_prefs(unit: str):
    if unit == "month":
        return ["last_month", ["off", -2, "month"], ["off", -12, "month"]]
    if unit == "year":
        return ["last_year", "n_2"]
    if unit == "day":
        return [["off", -1, "day"], ["off", -7, "day"]]
    return []


def prefs_for(U: str, T: str, *, non_increasing: bool, allow_add: bool):
    """Period references a formula of unit U may use to read a variable of unit T.

    Returns a list of (pref, option).  `non_increasing`: only references whose
    start never lies after the formula period's start (spiral worlds, see
    DESIGN 3.3).
    """
    out = []
    if T == "eternity":
        return [("this", None)]
    if U == "eternity":
        # the formula of an eternal variable receives whatever period was asked
        # for; it can only safely read other eternal variables
        return []
    if U == T:
        out = [("this", None)] + [(p, None) for p in _earlier_prefs(U)]
        if allow_add and not non_increasing:
            # summing over the very period the variable is defined for: one piece
            out.append(("this", "ADD"))
    elif U == "month" and T == "year":
        out = [("this_year", None), ("last_year", None), ("n_2", None), ("this", "DIVIDE")]
    elif U == "month" and T == "day":
        out = [("first_day", None)]
        if allow_add and not non_increasing:
            out.append(("this", "ADD"))
    elif U == "year" and T == "month":
        out = [("first_month", None), ("last_month", None)]
        if allow_add and not non_increasing:
            out.append(("this", "ADD"))
    elif U == "year" and T == "day":
        out = [("first_day", None)]
    elif U == "day" and T == "month":
        out = [("first_month", None), ("last_month", None), ("this", "DIVIDE")]
    elif U == "day" and T == "year":
        out = [("this_year", None), ("last_year", None)]
    return out


class ExprGen:
    def __init__(self, rng, world, var_index, discipline, allow_params=True):
        self.rng = rng
        self.world = world
        self.i = var_index
        self.var = world["variables"][var_index]
        self.discipline = discipline
        self.allow_params = allow_params
        self.back_edges = 0

    # --- leaves ----------------------------------------------------------- #
    def const(self):
        return ["c", pick(self.rng, [0.0, 1.0, 2.0, 0.5, -1.0, 3.0, 10.0, 100.0, 7.25])]

    def _via(self, target):
        """How a formula on self.var's entity reaches `target`'s entity."""
        fe, te = self.var["entity"], target["entity"]
        if fe == te:
            return None
        ents = {e["key"]: e for e in self.world["entities"]}
        if fe == "person":
            return ["proj", te]
        if te == "person":
            roles = ents[fe].get("roles", [])
            kind = weighted(
                self.rng,
                [("sum", 4), ("min", 1), ("max", 1), ("any", 1), ("all", 1), ("first", 1), ("nb", 1)],
            )
            role = None
            if roles and kind in ("sum", "min", "max", "any", "all") and chance(self.rng, 0.4):
                role = pick(self.rng, roles)["key"]
            uniq = [r for r in roles if r.get("max") == 1 and not r.get("subroles")]
            if uniq and chance(self.rng, 0.15):
                return ["uniq", pick(self.rng, uniq)["key"]]
            return ["agg", kind, role]
        return "skip"  # group -> other group: not generated

    def read(self, target_index=None, earlier_only=False):
        vs = self.world["variables"]
        U = self.var["unit"]
        spiral = self.discipline in ("spiral", "spiral_cyclic")
        if target_index is None:
            cands = list(range(self.i))
            if not cands:
                return self.const()
            target_index = pick(self.rng, cands)
        tgt = vs[target_index]
        via = self._via(tgt)
        if via == "skip":
            return self.const()
        if earlier_only:
            opts = [(p, None) for p in _earlier_prefs(U)] if tgt["unit"] == U else []
        else:
            opts = prefs_for(U, tgt["unit"], non_increasing=spiral, allow_add=True)
        if not opts:
            return self.const()
        pref, opt = pick(self.rng, opts)
        if opt in ("ADD", "DIVIDE") and tgt["type"] not in ("float", "int"):
            opt, pref = None, "this" if tgt["unit"] == U else {
                "ADD": "first_month" if tgt["unit"] == "month" else "first_day",
                "DIVIDE": "this_year" if tgt["unit"] == "year" else "first_month"}[opt]
        if opt in ("ADD", "DIVIDE") and chance(self.rng, 0.3):
            # the formula goes on working *in* the array the ADD / DIVIDE read gave it
            # (results of such reads are computed, hence the reader's own)
            opt += "_INPLACE"
        return ["rd", tgt["name"], pref, opt, via]

    def param(self):
        if self.var["unit"] == "eternity":
            return self.const()
        kind = weighted(self.rng, [("leaf", 6), ("scale", 2), ("pin", 1.2)])
        if kind == "pin":
            # "is there such a parameter at this date?" - the idiom for parameters that start
            # (or stop) at some date, whatever their value then
            return ["pin", *pick(self.rng, [("", "p0"), ("g", "p1"), ("g.h", "p2"), ("late", "p3"), ("g", "nope")])]
        if kind == "leaf":
            return ["p", pick(self.rng, ["p0", "g.p1", "g.h.p2"])]
        return ["sc", "sc.s0", self.expr(1)]

    # --- trees -------------------------------------------------------------- #
    def expr(self, depth):
        rng = self.rng
        if depth <= 0 or chance(rng, 0.25):
            kind = weighted(rng, [("rd", 6), ("c", 2), ("p", 2 if self.allow_params else 0)])
            if kind == "rd":
                return self.read()
            if kind == "p":
                return self.param()
            return self.const()
        kind = weighted(rng, [("b", 6), ("w", 2), ("im", 1.5)])
        if kind == "b":
            # ("/": a ratio, as an average rate is; 0 / 0 is NaN and x / 0 infinite for the
            # entities concerned, as in real rule systems - worlds may opt out)
            op = pick(rng, ["+", "+", "-", "*", "min", "max"] + ([] if self.world.get("no_ratio") else ["/"]))
            return ["b", op, self.expr(depth - 1), self.expr(depth - 1)]
        if kind == "w":
            cop = pick(rng, ["<", "<=", ">", ">=", "=="])
            return [
                "w",
                [cop, self.expr(depth - 1), self.expr(depth - 1)],
                self.expr(depth - 1),
                self.expr(depth - 1),
            ]
        if self.var["unit"] in ("month", "day"):
            return ["im", rng.randint(1, 12), self.expr(depth - 1), self.expr(depth - 1)]
        if self.var["unit"] == "year":
            return ["iy", pick(rng, YEARS), self.expr(depth - 1), self.expr(depth - 1)]
        return ["b", "+", self.expr(depth - 1), self.expr(depth - 1)]


def gen_variable_shell(rng, i, ents, enums, *, types=TYPES, units=None, input_only=False):
    ent = pick(rng, ents) if chance(rng, 0.45) else ents[0]
    typ = weighted(
        rng,
        [(t, w) for t, w in zip(TYPES, (40, 20, 10, 10, 8, 12)) if t in types],
    )
    unit = weighted(rng, units or _UNIT_W)
    var = {
        # (a helper variable may be named like a private one)
        "name": f"_v{i}" if chance(rng, 0.1) else f"v{i}",
        "entity": ent["key"],
        "type": typ,
        "unit": unit,
        "formulas": {},
    }
    if typ == "enum":
        en = pick(rng, enums)
        var["enum"] = en["name"]
        var["default"] = pick(rng, en["members"])
    elif typ == "float" and chance(rng, 0.3):
        var["default"] = pick(rng, [1.0, 5.5, -2.0])
    elif typ == "int" and chance(rng, 0.3):
        var["default"] = pick(rng, [1, 7, -3])
    elif typ == "bool" and chance(rng, 0.3):
        var["default"] = True
    elif typ == "str":
        if chance(rng, 0.5):
            var["max_length"] = pick(rng, [3, 5, 8])
        if chance(rng, 0.3):
            var["default"] = "dflt"[: var.get("max_length", 4)]
    elif typ == "date" and chance(rng, 0.3):
        var["default"] = "2001-02-03"
    if typ == "date" and chance(rng, 0.3):
        var["date_res"] = pick(rng, ["M", "M", "Y"])
    if chance(rng, 0.15):
        var["unit_as_text"] = True
    if unit in ("month", "year", "day") and typ in ("float", "int") and chance(rng, 0.3):
        # int variables truncate non-divisible amounts (D7): only C16 generates
        # the divide rule for them, with divisible amounts
        var["set_input"] = pick(rng, ["divide", "dispatch"]) if typ == "float" else "dispatch"
    elif unit in ("month", "day") and chance(rng, 0.1):
        var["set_input"] = "dispatch"
    if unit in ("month", "year") and typ in ("float", "int") and chance(rng, 0.25):
        # how Simulation.calculate_output answers a request for another period: a monthly
        # amount is summed over a year, a yearly one divided over its months
        var["calculate_output"] = "add" if unit == "month" else "divide"
    if unit != "eternity" and chance(rng, 0.12):
        # (the last day a variable exists may be the first day of a period)
        var["end"] = pick(rng, ["2018-06-30", "2018-12-31", "2019-03-31", "2018-01-01", "2018-02-01", "2019-01-01"])
    return var


def gen_world(
    rng: random.Random,
    *,
    discipline: str = "acyclic",
    n_vars=None,
    types=TYPES,
    units=None,
    max_depth=2,
    n_groups=None,
    wide: dict | None = None,
    ratio: bool = True,
) -> dict:
    """discipline: acyclic | spiral | cyclic."""
    ents = gen_entities(rng, n_groups)
    enums = []
    for k in range(rng.randint(1, 2)):
        n = rng.randint(2, 6)
        if wide and wide.get("enum") and k == 0:
            n = pick(rng, WIDE_ENUM_SIZES)
        enums.append({"name": f"E{k}", "members": [f"m{k}_{j}" for j in range(n)]})
    world = {
        "entities": ents,
        "enums": enums,
        "parameters": gen_parameters(rng),
        "variables": [],
        "discipline": discipline,
    }
    if wide:
        world["wide"] = wide
    if not ratio:
        world["no_ratio"] = True
    n_vars = n_vars or rng.randint(4, 12)
    if discipline in ("spiral", "spiral_cyclic"):
        # quasi-circular chains need variables sharing a unit
        units = units or [("month", 75), ("year", 15), ("eternity", 10)]
    for i in range(n_vars):
        world["variables"].append(
            gen_variable_shell(rng, i, ents, enums, types=types, units=units)
        )
    # formulas
    for i, var in enumerate(world["variables"]):
        if i == 0 or chance(rng, 0.25):
            continue  # input variable
        n_formulas = weighted(rng, [(1, 6), (2, 3), (3, 1)])
        starts = ["0001-01-01"]
        if var["unit"] != "eternity":
            if chance(rng, 0.25):
                starts = [pick(rng, [d for d in ("2017-06-01", "2018-01-01", "2018-02-01") if var.get("end") is None or d <= var["end"]])]
            for _ in range(n_formulas - 1):
                s = pick(rng, ["2018-01-01", "2018-07-01", "2019-01-01", "2018-03-15"])
                if s > starts[-1] and (var.get("end") is None or s <= var["end"]):
                    starts.append(s)
        for s in starts:
            g = ExprGen(rng, world, i, discipline)
            body = g.expr(rng.randint(0, max_depth))
            var["formulas"][s] = body
    # back edges: strictly earlier periods only, so no true cycle can arise
    hot = set()
    if discipline in ("spiral", "spiral_cyclic"):
        n_back = rng.randint(1, 3)
        formula_vars = [i for i, v in enumerate(world["variables"]) if v["formulas"]]
        for _ in range(n_back):
            if not formula_vars:
                break
            i = pick(rng, formula_vars)
            var = world["variables"][i]
            same_unit = [
                j
                for j, w in enumerate(world["variables"])
                if j >= i and w["unit"] == var["unit"] and w["formulas"]
            ]
            if var["unit"] == "eternity" or not same_unit:
                continue
            # half of the time the variable reads *itself* one unit earlier
            j = i if chance(rng, 0.5) else pick(rng, same_unit)
            g = ExprGen(rng, world, i, discipline)
            leaf = g.read(target_index=j, earlier_only=True)
            s = pick(rng, sorted(var["formulas"]))
            var["formulas"][s] = ["b", pick(rng, ["+", "max", "-"]), var["formulas"][s], leaf]
            if leaf[0] == "rd":
                hot.update((i, j))
    # (Eternal variables are never put inside a quasi-circular chain: an eternal
    # variable is one value, so a chain through it is a true circular definition -
    # which the engine does not recognise as such because the *requested* periods
    # differ - and a formula that makes it depend on the period asked for
    # contradicts its declaration.  Such rule systems are outside the worlds
    # generated; tried, and the literal C02 oracle rightly rejects what the engine
    # does with them: the nested computation's value is consumed, then overwritten.)
    if discipline in ("spiral", "spiral_cyclic") and hot:
        # readers of the quasi-circular variables: siblings that reach the same
        # entries again later in the same request (as cache hits), directly and
        # through one another - the interleavings cache pollution needs
        readers = [i for i, v in enumerate(world["variables"]) if v["formulas"] and i > min(hot)]
        summers = []  # (reader that sums a quasi-circular variable over a window, that variable)
        for _ in range(rng.randint(2, 5)):
            if not readers:
                break
            i = pick(rng, readers)
            var = world["variables"][i]
            same_unit = [h for h in hot if world["variables"][h]["unit"] == var["unit"] and h < i]
            others = [r for r in readers if r < i and world["variables"][r]["unit"] == var["unit"]]
            if not same_unit:
                continue
            g = ExprGen(rng, world, i, discipline)
            s = pick(rng, sorted(var["formulas"]))
            leaf = g.read(target_index=pick(rng, same_unit), earlier_only=chance(rng, 0.5))
            if leaf[0] == "rd" and var["unit"] in ("month", "year") and chance(rng, 0.3):
                # ... or sums them over the last few periods (a quarter to date): pieces that
                # are all stored by then are summed from the store
                tgt = world["variables"][pick(rng, same_unit)]
                via = g._via(tgt)
                if via != "skip" and tgt["type"] in ("float", "int"):
                    leaf = ["rd", tgt["name"], ["win", pick(rng, [1, 1, 2, 3]), var["unit"]], "ADD", via]
                    summers.append((i, tgt))
            if leaf[0] != "rd":
                tgt = world["variables"][pick(rng, same_unit)]
                via = g._via(tgt)
                if via == "skip":
                    continue
                leaf = ["rd", tgt["name"], "this", None, via]
            expr = ["b", "+", leaf, var["formulas"][s]]
            if others and chance(rng, 0.6):
                o = world["variables"][pick(rng, others)]
                via = g._via(o)
                if via != "skip":
                    expr = ["b", "+", expr, ["rd", o["name"], "this", None, via]]
            var["formulas"][s] = expr
        # a third rule that reads the quasi-circular variable itself (the spiral happens
        # while it is on the stack) and then the summing reader (which is not)
        for o, tgt in summers:
            later = [i for i in readers if i > o and world["variables"][i]["unit"] == world["variables"][o]["unit"]]
            if not later or not chance(rng, 0.7):
                continue
            i = pick(rng, later)
            var = world["variables"][i]
            g = ExprGen(rng, world, i, discipline)
            via_t, via_o = g._via(tgt), g._via(world["variables"][o])
            if "skip" in (via_t, via_o):
                continue
            s = pick(rng, sorted(var["formulas"]))
            var["formulas"][s] = ["b", "+", ["b", "+", ["rd", tgt["name"], "this", None, via_t],
                                             ["rd", world["variables"][o]["name"], "this", None, via_o]], var["formulas"][s]]
    if discipline in ("cyclic", "spiral_cyclic"):
        formula_vars = [i for i, v in enumerate(world["variables"]) if v["formulas"]]
        if formula_vars:
            i = pick(rng, formula_vars)
            var = world["variables"][i]
            same = [
                j
                for j, w in enumerate(world["variables"])
                if j >= i and w["unit"] == var["unit"] and w["formulas"] and w["entity"] == var["entity"]
            ]
            j = pick(rng, same)
            s = pick(rng, sorted(var["formulas"]))
            var["formulas"][s] = [
                "b",
                "+",
                var["formulas"][s],
                ["rd", world["variables"][j]["name"], "this", None, None],
            ]
            if j == i:
                # a rule that reads itself for the very period it is computed for: whenever
                # that formula is the one in force, a request for it cannot be answered
                world["self_cycle"] = [var["name"], s]
        months = [i for i in formula_vars if world["variables"][i]["unit"] == "month" and world["variables"][i]["type"] in ("float", "int")]
        if months and chance(rng, 0.4):
            # a circle over two periods: in month m the rule looks at the month after, in every
            # other month at the month before - asked for month m + 1 it needs month m, which
            # needs month m + 1 again (an outer calculation in progress, not the innermost)
            i = pick(rng, months)
            var = world["variables"][i]
            s = sorted(var["formulas"])[0]
            m = pick(rng, [1, 2, 3])
            var["formulas"][s] = ["b", "+", var["formulas"][s],
                                  ["im", m, ["rd", var["name"], ["off", 1, "month"], None, None], ["rd", var["name"], "last_month", None, None]]]
            world["two_cycle"] = [var["name"], s, m]
    return world


def gen_chain_world(rng: random.Random) -> dict:
    """A clean quasi-circular world, the textbook shape of such rule systems: one or two
    accumulating chains (`h(m) = h(m - 1) + ...`), rules that read a chain at a few offsets
    or sum it over a window ending now, and rules that read both a chain and those readers -
    so that, within one request, values computed while a spiral was being cut are reached
    again later as cache hits, singly and in sums, by rules that were not on the stack
    then.  Everything monthly and per person; few variables; dense in what C02's second
    sentence is about."""
    ents = gen_entities(rng, n_groups=0)
    typ = pick(rng, ["float", "float", "int"])
    vs = []

    def var(name, formula=None):
        v = {"name": name, "entity": "person", "type": typ, "unit": "month", "formulas": {}}
        if formula is not None:
            v["formulas"]["0001-01-01"] = formula
        vs.append(v)
        return v

    def rd(name, pref="this", opt=None):
        return ["rd", name, pref, opt, None]

    var("x")  # an input series
    step = pick(rng, [["c", 1.0], ["c", 2.0], rd("x"), ["b", "+", rd("x"), ["c", 1.0]]])
    back = pick(rng, ["last_month", "last_month", ["off", -2, "month"]])
    yearly = chance(rng, 0.35)
    if yearly:
        # the chain runs through a yearly base: h(m) = yb(year of m) + ..., yb(y) = h(month
        # before y) - a rule with a longer definition period inside the quasi-circular window,
        # which monthly rules read whole (this_year) or divided over its months (DIVIDE)
        vs.append({"name": "yb", "entity": "person", "type": typ, "unit": "year", "formulas": {"0001-01-01": ["b", "+", rd("h", "last_month"), ["c", 12.0]]}})
        var("h", ["b", pick(rng, ["+", "+", "max"]), rd("yb", "this_year"), step])
    else:
        var("h", ["b", pick(rng, ["+", "+", "max"]), rd("h", back), step])
    chains = ["h"]
    if chance(rng, 0.4):
        var("g", ["b", "+", rd("g", "last_month"), rd("h", pick(rng, ["this", "last_month"]))])
        chains.append("g")
    readers = []
    for k in range(rng.randint(1, 3)):
        c = pick(rng, chains)
        kind = pick(rng, ["win", "win", "plain", "two"] + (["div", "div", "whole"] if yearly else []))
        if kind == "div":
            f = rd("yb", "this", "DIVIDE")
        elif kind == "whole":
            f = rd("yb", "this_year")
        elif kind == "win":
            # (now and then a window of more than a year: many entries waiting for the purge)
            f = rd(c, ["win", pick(rng, [1, 2, 2, 3, 3, 15, 18]), "month"], "ADD")
        elif kind == "plain":
            f = rd(c, pick(rng, ["this", "last_month", ["off", -2, "month"]]))
        else:
            f = ["b", "+", rd(c, "last_month"), rd(c, "this")]
        if readers and chance(rng, 0.3):
            f = ["b", "+", f, rd(pick(rng, readers))]
        if chance(rng, 0.3):
            f = ["b", "+", f, ["c", 100.0]]
        var(f"r{k}", f)
        readers.append(f"r{k}")
    for k in range(rng.randint(1, 2)):
        parts = [rd(pick(rng, chains), pick(rng, ["this", "this", "last_month"]))]
        if chance(rng, 0.5):
            parts.append(rd(pick(rng, chains), pick(rng, ["last_month", ["off", -2, "month"], "this"])))
        parts.append(rd(pick(rng, readers)))
        if chance(rng, 0.4):
            parts.append(rd(pick(rng, readers)))
        if chance(rng, 0.5):
            rng.shuffle(parts)
        f = parts[0]
        for q in parts[1:]:
            f = ["b", "+", f, q]
        var(f"t{k}", f)
    return {"entities": ents, "enums": [{"name": "E0", "members": ["m0_0", "m0_1"]}], "parameters": gen_parameters(rng),
            "variables": vs, "discipline": "spiral"}


# --------------------------------------------------------------------------- #
# situations and inputs
# --------------------------------------------------------------------------- #


def gen_situation(
    rng: random.Random,
    world: dict,
    *,
    max_persons=6,
    allow_unallocated=True,
    trailing_empty_ok=False,
):
    """A situation document as posted to SimulationBuilder.build_from_entities.

    Roles are keyed by the plural of the *declared* role; holders of a role with
    sub-roles get the sub-role of their position in the list (builder rule).
    """
    n = rng.randint(1, max_persons)
    wide = world.get("wide") or {}
    if wide.get("persons"):
        n = pick(rng, wide["persons"])
    pids = [f"p{k}" for k in range(n)]
    order = pids[:]
    rng.shuffle(order)
    sit = {"persons": {pid: {} for pid in order}}
    for ent in world["entities"]:
        if ent.get("is_person"):
            continue
        roles = ent["roles"]
        if allow_unallocated and chance(rng, 0.12):
            # this group kind is left out of the document altogether: every person is
            # put in a group of their own
            continue

        def room(group, role):
            mx = len(role["subroles"]) if role.get("subroles") else role.get("max")
            return mx is None or len(group[role["plural"]]) < mx

        n_groups = rng.randint(1, max(1, min(n, 3)))
        if n > 7:
            # few big groups, many small ones, or as many groups as persons
            n_groups = pick(rng, [1, 2, 3, max(1, n // 3), max(1, n // 2), n - 1, n])
        groups = {
            f"{ent['key']}{k}": {r["plural"]: [] for r in roles} for k in range(n_groups)
        }
        gids = list(groups)
        members = pids[:]
        rng.shuffle(members)
        left_out = set()
        if allow_unallocated and n > 1 and chance(rng, 0.25):
            left_out = set(rng.sample(members, rng.randint(1, max(1, n // 3))))
        for pid in members:
            if pid in left_out:
                continue
            gid = pick(rng, gids)
            cands = [r for r in roles if room(groups[gid], r)]
            if cands:
                groups[gid][pick(rng, cands)["plural"]].append(pid)
                continue
            for g2 in gids:  # every role is full there: first group with room, else left out
                c2 = [r for r in roles if room(groups[g2], r)]
                if c2:
                    groups[g2][c2[0]["plural"]].append(pid)
                    break
        for gid in gids:  # loose syntax: empty role lists may be omitted
            for plural in list(groups[gid]):
                if not groups[gid][plural] and chance(rng, 0.5):
                    del groups[gid][plural]
        items = list(groups.items())
        rng.shuffle(items)
        placed = {pid for _, g in items for lst in g.values() for pid in lst}
        if not trailing_empty_ok and len(placed) == n:
            # Nobody will get an auto-created group (those come last and have a
            # member).  Aggregations over a population whose *last* group is
            # empty hit a behaviour that belongs to a property not claimed here
            # (DESIGN 5), so formulas-bearing worlds avoid that layout.
            nonempty = [k for k, (_, g) in enumerate(items) if any(g.values())]
            if nonempty and nonempty[-1] != len(items) - 1:
                items.append(items.pop(nonempty[-1]))
        sit[ent["plural"]] = dict(items)
    return sit


def entity_counts(sit: dict, world: dict) -> dict:
    """Number of instances per entity key, *as declared* (auto-created groups excluded)."""
    out = {}
    for ent in world["entities"]:
        out[ent["key"]] = len(sit.get(ent["plural"], {}))
    return out


def gen_value(rng: random.Random, var: dict, world: dict):
    t = var["type"]
    wide = world.get("wide") or {}
    if wide.get("special") and t in SPECIAL and chance(rng, wide["special"]):
        pool = SPECIAL[t]
        if t == "float" and not wide.get("nonfinite"):
            pool = [x for x in pool if not isinstance(x, str)]
        if t == "str" and var.get("max_length"):
            pool = [x for x in pool if x.isascii() and len(x) <= var["max_length"] and "\x00" not in x] or [""]
        return pick(rng, pool)
    if t == "float":
        return pick(rng, [0.0, 1.0, 2.5, 10.0, 100.0, 1234.5, -3.0, 12.0, 0.25, 250000.0, 999999.0])
    if t == "int":
        return pick(rng, [0, 1, 2, 12, 24, 120, 365, -6, 1200])
    if t == "bool":
        return chance(rng, 0.5)
    if t == "enum":
        en = next(e for e in world["enums"] if e["name"] == var["enum"])
        return pick(rng, en["members"])
    if t == "date":
        return f"{rng.randint(1950, 2020)}-{rng.randint(1, 12):02d}-{rng.randint(1, 28):02d}"
    if t == "str":
        pool = STR_POOL if not var.get("max_length") else [s for s in STR_POOL if s.isascii()]
        return pick(rng, pool)
    raise ValueError(t)


def period_for_unit(rng: random.Random, unit: str) -> str:
    y = pick(rng, YEARS)
    if unit == "year":
        return str(y)
    if unit == "month":
        return f"{y}-{rng.randint(1, 12):02d}"
    if unit == "day":
        if chance(rng, 0.25):  # month ends, leap days, year boundaries
            return pick(rng, ["2018-01-31", "2018-02-28", "2020-02-29", "2016-02-29", "2018-12-31", "2019-01-01", "2018-04-30"])
        return f"{y}-{rng.randint(1, 12):02d}-{rng.randint(1, 28):02d}"
    if unit == "eternity":
        # requests for eternal variables use an ordinary period (formula lookup
        # at ETERNITY itself is outside the claimed properties); inputs may use
        # either spelling
        return pick(rng, ["2018-01", "2019-05", "2018"])
    if unit == "week":
        if chance(rng, 0.3):  # weeks that straddle a year boundary, week 53
            return pick(rng, ["2019-W01", "2020-W01", "2018-W01", "2015-W53", "2020-W53", "2018-W52", "2026-W01"])
        return f"{y}-W{rng.randint(1, 52):02d}"
    if unit == "weekday":
        if chance(rng, 0.3):
            return pick(rng, ["2019-W01-1", "2019-W01-2", "2020-W01-1", "2020-W53-5", "2018-W52-7", "2015-W53-4"])
        return f"{y}-W{rng.randint(1, 52):02d}-{rng.randint(1, 7)}"
    raise ValueError(unit)


# --------------------------------------------------------------------------- #
# requests
# --------------------------------------------------------------------------- #

_REQ_MONTHS = ["2018-01", "2018-02", "2018-03", "2018-04", "2018-12", "2019-01", "2017-12"]
_REQ_YEARS = ["2018", "2019", "2017"]
# rolling years (a year starting on the first of another month): legal periods of a
# year-defined variable, and the only aligned ones that overlap calendar years in part
_ROLLING_YEARS = ["year:2018-03", "year:2017-07", "year:2018-07", "year:2017-12"]
_REQ_DAYS = ["2018-01-01", "2018-01-02", "2018-02-28", "2018-03-01"]


def gen_request(rng: random.Random, world: dict, *, prefer_formulas=True, allow_options=True):
    """One top-level request [kind, variable, period] that is valid for the variable."""
    vs = world["variables"]
    cands = [v for v in vs if v["formulas"]] if prefer_formulas and chance(rng, 0.85) else vs
    v = pick(rng, cands or vs)
    u = v["unit"]
    numeric = v["type"] in ("float", "int")
    if u == "month":
        if allow_options and numeric and chance(rng, 0.12):
            return ["calculate_add", v["name"], pick(rng, ["2018", "quarter"]).replace("quarter", "month:2018-01:3")]
        return ["calculate", v["name"], pick(rng, _REQ_MONTHS)]
    if u == "year":
        if allow_options and numeric and chance(rng, 0.15):
            return ["calculate_divide", v["name"], pick(rng, _REQ_MONTHS)]
        if allow_options and numeric and chance(rng, 0.05):
            return ["calculate_add", v["name"], "year:2018:2"]
        if chance(rng, 0.1):
            return ["calculate", v["name"], pick(rng, _ROLLING_YEARS)]
        return ["calculate", v["name"], pick(rng, _REQ_YEARS)]
    if u == "day":
        if allow_options and numeric and chance(rng, 0.1):
            return ["calculate_add", v["name"], "2018-02"]
        return ["calculate", v["name"], pick(rng, _REQ_DAYS)]
    if u == "eternity":
        return ["calculate", v["name"], pick(rng, ["2018-01", "2018"])]
    if u in ("week", "weekday") and numeric and allow_options and chance(rng, 0.15):
        # summed over a year (weeks and weekdays come from the period algebra, not from text;
        # 2015 and 2020 have a week 53)
        return ["calculate_add", v["name"], pick(rng, ["2020", "2015", "2018"] if u == "week" else ["2020-12", "2015-12"])]
    return ["calculate", v["name"], period_for_unit(rng, u)]


def gen_inputs(rng: random.Random, world: dict, p=0.5):
    """A random subset of (variable, period) inputs near the request periods."""
    out = []
    for v in world["variables"]:
        end = v.get("end")
        if end and end.endswith("-01") and chance(rng, 0.5):
            # the last day the variable exists is the first day of a period: an input for that
            # very period is an input like any other
            per = {"month": end[:7], "day": end, "year": end[:4] if end.endswith("-01-01") else None}.get(v["unit"])
            if per:
                out.append([v["name"], per, [gen_value(rng, v, world) for _ in range(rng.randint(1, 3))]])
        n = 0
        while chance(rng, p) and n < 3:
            n += 1
            u = v["unit"]
            if u == "month":
                per = pick(rng, _REQ_MONTHS + ["2017-11", "2017-10"])
                if v.get("set_input") and chance(rng, 0.3):
                    per = pick(rng, ["2018", "2017"])
            elif u == "year":
                per = pick(rng, _REQ_YEARS + ["2016"])
                if chance(rng, 0.15):
                    per = pick(rng, _ROLLING_YEARS)
            elif u == "day":
                per = pick(rng, _REQ_DAYS)
                if v.get("set_input") and chance(rng, 0.3):
                    per = "2018-02"
            elif u == "eternity":
                per = pick(rng, ["ETERNITY", "2018-01"])
            else:
                per = period_for_unit(rng, u)
            if any(i[0] == v["name"] and i[1] == per for i in out):
                continue
            k = rng.randint(1, 4)
            vals = [gen_value(rng, v, world) for _ in range(k)]
            out.append([v["name"], per, vals])
    return out
