"""Canonical forms of values for the event log, digests and comparisons.

Never reads a clock, never draws from a PRNG.  Arrays are logged as dtype +
digest of their bytes; enum arrays as (enum, indices) — a freshly computed enum
result carries uint8 indices while a cached one carries int16; which integer
width carries them belongs to a property not claimed here (DESIGN 7).
Exceptions are logged by class only (S5 makes some messages order dependent).
"""

from __future__ import annotations

import hashlib
import json

import numpy

from . import use_repo

use_repo()

from openfisca_core.indexed_enums import EnumArray  # noqa: E402


def canon(value):
    """A JSON-able canonical form of anything an API call may return."""
    if value is None:
        return None
    if isinstance(value, EnumArray):
        enum = value.possible_values
        return ["enum", None if enum is None else enum.__name__, value.view(numpy.ndarray).astype(int).tolist()]
    if isinstance(value, numpy.ndarray):
        if value.dtype.kind == "O":
            return ["obj", [_objstr(x) for x in value.tolist()]]
        if value.dtype.kind in "SU":
            return [value.dtype.str, [x.decode("utf8", "replace") if isinstance(x, bytes) else x for x in value.tolist()]]
        if value.dtype.kind == "M":
            return [value.dtype.str, value.astype(str).tolist()]
        return [value.dtype.str, hashlib.blake2b(numpy.ascontiguousarray(value).tobytes(), digest_size=8).hexdigest(), _preview(value)]
    if isinstance(value, BaseException):
        return ["exc", type(value).__name__]
    if isinstance(value, (list, tuple)):
        return [canon(v) for v in value]
    if isinstance(value, dict):
        return {str(k): canon(v) for k, v in sorted(value.items(), key=lambda kv: str(kv[0]))}
    if isinstance(value, (set, frozenset)):
        return sorted(str(v) for v in value)
    if isinstance(value, (numpy.generic,)):
        return canon(numpy.asarray(value).reshape(1))
    if isinstance(value, (str, int, float, bool)):
        return value
    return str(value)


def _objstr(x):
    if isinstance(x, bytes):
        return x.decode("utf8", "replace")
    return str(x)


def _preview(a):
    # as text: NaN must compare equal to itself in canonical forms
    out = [repr(x) for x in a[:8].tolist()]
    return out + ["..."] if a.size > 8 else out


def same(a, b) -> bool:
    """Exact equality in canonical form (bitwise for numeric arrays, NaN-safe)."""
    return canon(a) == canon(b)


def outcome(fn):
    """Run fn(); return ('ok', value) or ('exc', exception)."""
    try:
        return ("ok", fn())
    except Exception as e:  # noqa: BLE001
        return ("exc", e)


def canon_outcome(o):
    kind, v = o
    if kind == "exc":
        return ["exc", type(v).__name__]
    return ["ok", canon(v)]


def digest(obj) -> str:
    return hashlib.blake2b(
        json.dumps(obj, sort_keys=True, default=str).encode(), digest_size=8
    ).hexdigest()


class History:
    """(seq, actor, op, args, outcome, state-digest) records of one run."""

    def __init__(self) -> None:
        self.events = []

    def add(self, actor, op, args=None, out=None, state=None) -> None:
        self.events.append([len(self.events), actor, op, args, out, state])

    def digest(self) -> str:
        return digest(self.events)
