"""dsim — deterministic simulation with fault injection for openfisca-core.

See /verif/DESIGN.md.  Nothing here is imported by /repo; every seam is a
run-time replacement of a module attribute (dsim.seams).
"""

import os
import sys

# The repository under test: /repo unless a scratch copy is being tested.
REPO = os.environ.get("VERIF_REPO", "/repo")
VERIF = os.path.dirname(os.path.dirname(os.path.abspath(__file__)))


def use_repo() -> str:
    """Make `import openfisca_core` resolve to REPO's working tree.

    /venv has an editable install of /repo; a plain sys.path entry placed first
    takes precedence over the editable finder, which is what lets mutant copies
    be tested without touching /repo.
    """
    if REPO not in sys.path[:1]:
        sys.path.insert(0, REPO)
    return REPO
