"""CLI: python -m dsim check <id> --tier quick|thorough | replay <file> | selfcheck"""

from __future__ import annotations

import argparse
import os
import sys


def main() -> int:
    ap = argparse.ArgumentParser(prog="dsim")
    sub = ap.add_subparsers(dest="cmd", required=True)
    c = sub.add_parser("check")
    c.add_argument("property")
    c.add_argument("--tier", default=os.environ.get("VERIF_TIER", "quick"), choices=["quick", "thorough"])
    r = sub.add_parser("replay")
    r.add_argument("path")
    sub.add_parser("selfcheck")
    s = sub.add_parser("sensitivity")
    s.add_argument("property", nargs="?")
    args = ap.parse_args()

    from . import driver

    if args.cmd == "check":
        return driver.run_check(args.property, args.tier)
    if args.cmd == "replay":
        return driver.run_replay(args.path)
    if args.cmd == "selfcheck":
        from . import selfcheck

        return selfcheck.main()
    if args.cmd == "sensitivity":
        from . import sensitivity

        return sensitivity.main(args.property)
    return 2


if __name__ == "__main__":
    sys.exit(main())
