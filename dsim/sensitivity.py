"""Sensitivity: does the quick check notice realistic breakage? (DESIGN 3.11)

For every patch under /verif/mutants/<id>-*.patch and /verif/seeded/<name>/patch.diff
(meta.json names the property): copy /repo to /dev/shm, apply the patch, run the
quick check with VERIF_REPO pointing at the copy, expect exit 1, remove the copy.
Results go to /verif/sensitivity.json (committed; summarised in the evidence).
Nothing is ever applied to /repo itself.
"""

from __future__ import annotations

import concurrent.futures as cf
import glob
import json
import os
import shutil
import subprocess
import sys
import time

from . import VERIF

REAL_REPO = os.environ.get("VERIF_REPO", "/repo")


def patches(prop=None):
    out = []
    for path in sorted(glob.glob(os.path.join(VERIF, "mutants", "*.patch"))):
        name = os.path.basename(path)[: -len(".patch")]
        p = name.split("-", 1)[0]
        out.append({"name": name, "property": p, "patch": path, "kind": "mutant"})
    for meta in sorted(glob.glob(os.path.join(VERIF, "seeded", "*", "meta.json"))):
        m = json.load(open(meta))
        d = os.path.dirname(meta)
        out.append({"name": os.path.basename(d), "property": m["property"], "patch": os.path.join(d, "patch.diff"), "kind": "seeded",
                    "also": m.get("also_checked_by", [])})
    if prop:
        out = [x for x in out if x["property"] == prop or prop in x.get("also", [])]
    return out


def run_one(item, budget, props=None):
    tag = f"{item['name']}-{os.getpid()}-{int(time.time() * 1000) % 100000}"
    copy = f"/dev/shm/dsim-mut-{tag}"
    out_root = f"/dev/shm/dsim-mut-out-{tag}"
    try:
        subprocess.run(["rsync", "-a", "--exclude", ".git", "--exclude", "__pycache__", REAL_REPO + "/", copy + "/"], check=True)
        r = subprocess.run(["patch", "-p1", "--no-backup-if-mismatch", "-i", item["patch"]], cwd=copy, capture_output=True, text=True)
        if r.returncode != 0:
            return {**item, "result": "patch-does-not-apply", "detail": (r.stdout + r.stderr)[-300:]}
        results = {}
        for prop in props or [item["property"]]:
            env = dict(os.environ, VERIF_REPO=copy, VERIF_BUDGET_S=str(budget), VERIF_FAIL_FAST="1", VERIF_EVIDENCE_DIR=os.path.join(out_root, "evidence"),
                       VERIF_REPLAY_ROOT=os.path.join(out_root, "replays"))
            t0 = time.time()
            r = subprocess.run([sys.executable, "-m", "dsim", "check", prop, "--tier", "quick"], cwd=VERIF, env=env, capture_output=True, text=True)
            lines = [l for l in r.stdout.splitlines() if l.startswith(("VIOLATION", "HARNESS-ERROR"))]
            clauses = sorted({l.split("#", 1)[1].split()[0] for l in lines if l.startswith("VIOLATION") and "#" in l})
            results[prop] = {"exit": r.returncode, "clauses": clauses, "wall_s": round(time.time() - t0, 1),
                             "harness_errors": [l[:200] for l in lines if l.startswith("HARNESS")][:2]}
        main = results[item["property"]] if item["property"] in results else next(iter(results.values()))
        verdict = "killed" if any(v["exit"] == 1 for v in results.values()) else ("harness-error" if any(v["exit"] == 2 for v in results.values()) else "survived")
        return {**item, "result": verdict, "checks": results}
    finally:
        shutil.rmtree(copy, ignore_errors=True)
        shutil.rmtree(out_root, ignore_errors=True)


def main(prop=None) -> int:
    items = patches(prop)
    budget = float(os.environ.get("VERIF_SENS_BUDGET_S", "25"))
    jobs = int(os.environ.get("VERIF_SENS_JOBS", "2"))
    results = []
    with cf.ThreadPoolExecutor(max_workers=jobs) as ex:
        futs = [ex.submit(run_one, it, budget, [it["property"], *it.get("also", [])]) for it in items]
        for f in futs:
            r = f.result()
            results.append(r)
            print(f"{r['name']:40s} {r['property']} {r['result']:12s} " + " ".join(f"{p}:{v['exit']}{v['clauses']}" for p, v in r.get("checks", {}).items()), flush=True)
    path = os.path.join(VERIF, "sensitivity.json")
    summary = json.load(open(path)) if os.path.exists(path) else {}
    by_prop = {}
    for r in results:
        by_prop.setdefault(r["property"], []).append(r)
    for p, rs in by_prop.items():
        summary[p] = {
            "killed": sum(1 for r in rs if r["result"] == "killed"),
            "of": len(rs),
            "survivors": [r["name"] for r in rs if r["result"] != "killed"],
            "details": {r["name"]: {"kind": r["kind"], "result": r["result"], "clauses": sorted({c for v in r.get("checks", {}).values() for c in v["clauses"]})} for r in rs},
        }
    with open(path, "w") as f:
        json.dump(summary, f, indent=1, sort_keys=True)
    return 0
