"""Worker: a fresh interpreter (fixed PYTHONHASHSEED) that runs a lane of seeds.

Protocol: one JSON document on argv[1]; JSON lines on stdout.
"""

from __future__ import annotations

import faulthandler
import gc
import json
import os
import sys
import time
import traceback


def emit(obj) -> None:
    sys.stdout.write(json.dumps(obj, default=str) + "\n")
    sys.stdout.flush()


def run_one(check, scn):
    """Run a scenario; harness exceptions are reported apart from violations.

    An exception that escapes from the code under test while an oracle is calling
    it (the innermost frames of the traceback lie in the repository, below the
    last frame of the harness) is not a harness error: on the unchanged tree no
    oracle call raises, so the code under test has started to fail where it did
    not.  It is reported as a violation of `<property>.unexpected-exception`,
    deterministic and replayable like any other."""
    import traceback as tb

    from dsim import REPO, seams
    from dsim.checks import Result
    from dsim.history import digest

    try:
        res = check.run(scn)
        wide = (scn.get("world") or {}).get("wide") if isinstance(scn.get("world"), dict) else None
        if wide:
            res.count("probe:wide_world")
            if wide.get("persons"):
                res.count("probe:wide_population")
            if wide.get("special"):
                res.count("probe:wide_special_values")
    except Exception as e:  # noqa: BLE001
        frames = tb.extract_tb(e.__traceback__)
        # (frames of the simulated environment - dsim/seams.py raising an OS error the way
        # the real file system would - are the environment's, not the harness's, when the
        # code under test called them)
        last_harness = max((i for i, f in enumerate(frames) if "/dsim/" in f.filename and not f.filename.endswith("/seams.py")), default=-1)
        below = [f for f in frames[last_harness + 1:] if f.filename.startswith(REPO.rstrip("/") + "/")]
        if not below:
            raise
        res = Result()
        res.count("executions")
        where = f"{os.path.relpath(below[-1].filename, REPO)}:{below[-1].name}"
        res.violate(f"{check.PROPERTY}.unexpected-exception", "oracle", what=f"{type(e).__name__} in {where}", detail=str(e)[:200],
                    harness_call=f"{os.path.basename(frames[last_harness].filename)}:{frames[last_harness].lineno}")
        res.digest = digest(["unexpected-exception", type(e).__name__, where])
    finally:
        seams.Env.uninstall()
    return res


class _Res:
    """A Result rebuilt from what an isolated child sent back."""

    def __init__(self, d) -> None:
        self.violations = d.get("violations") or []
        self.stats = d.get("stats") or {}
        self.sets = {k: set(v) for k, v in (d.get("sets") or {}).items()}
        self.nontrivial = bool(d.get("nontrivial"))
        self.discarded = d.get("discarded")
        self.digest = d.get("digest")

    def clauses(self):
        return sorted({v["clause"] for v in self.violations})


class HarnessError(Exception):
    pass


def _die_with_parent() -> None:
    """An isolated child must never outlive its worker (Linux: PR_SET_PDEATHSIG)."""
    try:
        import ctypes
        import signal

        ctypes.CDLL("libc.so.6", use_errno=True).prctl(1, signal.SIGKILL)
    except Exception:  # noqa: BLE001,S110
        pass


def run_isolated(check, scn):
    """Run one scenario in a forked child of this (pristine) interpreter.

    The worker itself never runs a scenario: every run starts from the same
    post-import process image, so nothing the code under test keeps in
    process-wide state (module-level caches, class attributes, counters) - and
    nothing the harness keeps - can leak from one run into the next.  One seed is
    one exactly repeatable execution, whatever ran before it in the lane."""
    if os.environ.get("VERIF_ISOLATE", "1") == "0":
        return run_one(check, scn)
    sys.stdout.flush()
    sys.stderr.flush()
    r, w = os.pipe()
    pid = os.fork()
    if pid == 0:
        code = 0
        try:
            os.close(r)
            _die_with_parent()
            res = run_one(check, scn)
            payload = json.dumps(
                {
                    "violations": res.violations,
                    "stats": res.stats,
                    "sets": {k: sorted(v) for k, v in res.sets.items()},
                    "nontrivial": res.nontrivial,
                    "discarded": res.discarded,
                    "digest": getattr(res, "digest", None),
                },
                default=str,
            ).encode()
        except BaseException:  # noqa: BLE001
            payload = json.dumps({"harness_error": traceback.format_exc()[-4000:]}).encode()
            code = 1
        try:
            with os.fdopen(w, "wb") as f:
                f.write(payload)
        finally:
            os._exit(code)
    os.close(w)
    chunks = []
    import select
    import signal

    deadline = time.monotonic() + float(os.environ.get("VERIF_RUN_TIMEOUT_S", "300"))
    while True:
        ready, _, _ = select.select([r], [], [], max(0.0, deadline - time.monotonic()))
        if not ready:
            # step caps do not bound hangs: a run that exceeds its wall limit is killed
            os.kill(pid, signal.SIGKILL)
            os.waitpid(pid, 0)
            os.close(r)
            raise HarnessError("isolated run exceeded its wall limit and was killed")
        b = os.read(r, 1 << 16)
        if not b:
            break
        chunks.append(b)
    os.close(r)
    os.waitpid(pid, 0)
    try:
        d = json.loads(b"".join(chunks))
    except Exception as e:  # noqa: BLE001
        raise HarnessError(f"isolated run died without a result ({e})") from e
    if "harness_error" in d:
        raise HarnessError(d["harness_error"])
    return _Res(d)


def condensed(scn) -> dict:
    """A short form of a scenario for the evidence samples."""
    out = {k: scn[k] for k in ("property", "profile", "seed", "mode", "knobs", "env") if k in scn}
    w = scn.get("world")
    if w:
        out["variables"] = [
            {"name": v["name"], "entity": v["entity"], "type": v["type"], "unit": v["unit"], "formulas": v.get("formulas", {})}
            for v in w["variables"][:6]
        ]
    for key in ("ops", "situation", "inputs", "pool", "order"):
        if key in scn:
            val = scn[key]
            out[key] = val[:8] if isinstance(val, list) else val
    return out


def main() -> int:
    cfg = json.loads(sys.argv[1])
    faulthandler.enable()
    # No faulthandler.dump_traceback_later here: its watchdog thread does not exist in
    # a forked child, and anything there that cancels it (pytest does) would wait for
    # it for ever.  Hangs are bounded per run (run_isolated) and per worker (driver).
    gc.disable()  # S3: finalizers run only when the scheduler says so
    sys.unraisablehook = lambda u: None  # finalizer noise (double rmtree) is not an event

    from dsim import VERIF, shrink
    from dsim.checks import load
    from dsim.rng import run_seed

    from dsim import findings
    from dsim.driver import load_findings

    check = load(cfg["check"])
    if hasattr(check, "warm_up"):
        check.warm_up()
    tier = cfg.get("tier", "quick")
    open_findings = [f for f in load_findings() if f["property"] == cfg["check"] and f.get("status") == "open"]
    known_seen: dict = {}

    # ---- replay of a scenario file ------------------------------------------ #
    if cfg.get("replay"):
        scn = json.load(open(cfg["replay"]))
        res = run_isolated(check, scn)
        emit(
            {
                "type": "replay",
                "clauses": res.clauses(),
                "digest": getattr(res, "digest", None),
                "violations": res.violations[:5],
                "discarded": res.discarded,
            }
        )
        return 0

    deadline = time.monotonic() + cfg.get("budget_s", 30.0)
    indices = cfg.get("indices")
    lane, lanes, base = cfg.get("lane", 0), cfg.get("lanes", 1), cfg.get("base", 0)
    sample_upto = cfg.get("sample_upto", 0)
    max_runs = cfg.get("max_runs")

    stats: dict = {}
    sets: dict = {}
    samples = []
    runs = nontrivial = discarded = 0
    digests = set()
    nt_digests = set()
    violations_reported = 0

    def indices_iter():
        if indices is not None:
            yield from indices
            return
        i = lane
        while True:
            yield i
            i += lanes

    stop_file = cfg.get("stop_file")
    for i in indices_iter():
        if indices is None and time.monotonic() > deadline:
            break
        if stop_file and indices is None and os.path.exists(stop_file):
            break
        if max_runs is not None and runs >= max_runs:
            break
        seed = run_seed(base, i)
        try:
            scn = check.generate(seed, tier)
            scn["hash_seed"] = int(os.environ.get("PYTHONHASHSEED", "0") or 0)
            if sys.flags.optimize:
                scn["py_optimize"] = 1  # (the interpreter runs with assertions disabled: replays must too)
            res = run_isolated(check, scn)
        except Exception:  # noqa: BLE001
            emit({"type": "harness_error", "i": i, "seed": seed, "trace": traceback.format_exc()[-4000:]})
            return 3
        gc.collect()
        runs += 1
        if res.discarded:
            discarded += 1
            continue
        d = getattr(res, "digest", None)
        digests.add(d)
        if res.nontrivial:
            nontrivial += 1
            nt = res.sets.get("nontrivial")
            if nt:
                nt_digests |= nt
            else:
                nt_digests.add(d)
        for k, n in res.stats.items():
            stats[k] = stats.get(k, 0) + n
        for k, s in res.sets.items():
            if k != "nontrivial":
                sets.setdefault(k, set()).update(s)
        if len(samples) < 2 and res.nontrivial:
            samples.append(condensed(scn))
        if i < sample_upto or indices is not None:
            emit({"type": "digest", "i": i, "d": d})
        if res.violations:
            # a violation that matches an open known finding by mechanism is counted,
            # not minimised again (its canary replay documents it)
            fid = findings.match(open_findings, res.violations[0], scn)
            if fid and all(findings.match(open_findings, v, scn) for v in res.violations):
                known_seen[fid] = known_seen.get(fid, 0) + 1
                continue
        if res.violations and violations_reported < cfg.get("max_violations", 3):
            violations_reported += 1
            v0 = next((v for v in res.violations if not findings.match(open_findings, v, scn)), res.violations[0])
            clause = v0["clause"]
            to_replay = getattr(check, "to_replay", None)
            scn_r = to_replay(scn, v0) if to_replay else scn

            what = v0.get("what")

            def fails(cand, clause=clause, what=what):
                # same clause *and* same kind of failure, so that shrinking cannot
                # drift to another way of failing the clause
                r = run_isolated(check, cand)
                return any(v["clause"] == clause and v.get("what") == what for v in r.violations)

            t0 = time.monotonic()
            try:
                if not fails(scn_r):
                    # Not reproducible in this (long-lived) process: something outside the
                    # simulator's control (object identity / allocator state, S6) may be
                    # involved.  Hand the unminimised scenario to the driver, which
                    # replays it in fresh interpreters and reports it only if it
                    # reproduces there, every time.
                    scn_r["expect"] = {"clause": clause, "digest": None}
                    scn_r["violation"] = v0
                    out_dir = os.path.join(cfg.get("replay_dir") or os.path.join(VERIF, "replays", cfg["check"]))
                    os.makedirs(out_dir, exist_ok=True)
                    path = os.path.join(out_dir, f"{seed}-{clause}.unminimised.json")
                    with open(path, "w") as f:
                        json.dump(scn_r, f, indent=1, default=str)
                    emit({"type": "unreproduced", "i": i, "seed": seed, "clause": clause, "replay": path, "violation": v0})
                    continue
                small = shrink.minimise(
                    scn_r,
                    fails,
                    extra=getattr(check, "extra_shrinkers", ()),
                    budget_s=cfg.get("shrink_s", 40.0),
                )
                rs = run_isolated(check, small)
            except Exception:  # noqa: BLE001
                emit({"type": "harness_error", "i": i, "seed": seed, "trace": traceback.format_exc()[-4000:]})
                return 3
            vs = [v for v in rs.violations if v["clause"] == clause and v.get("what") == what]
            small["expect"] = {"clause": clause, "digest": getattr(rs, "digest", None)}
            small["violation"] = vs[0] if vs else None
            out_dir = os.path.join(cfg.get("replay_dir") or os.path.join(VERIF, "replays", cfg["check"]))
            os.makedirs(out_dir, exist_ok=True)
            path = os.path.join(out_dir, f"{seed}-{clause}.json")
            with open(path, "w") as f:
                json.dump(small, f, indent=1, default=str)
            emit(
                {
                    "type": "violation",
                    "i": i,
                    "seed": seed,
                    "clause": clause,
                    "replay": path,
                    "violation": vs[0] if vs else v0,
                    "shrink_s": round(time.monotonic() - t0, 1),
                    "all_clauses": res.clauses(),
                }
            )
            if stop_file:
                open(stop_file, "w").close()
            # time spent shrinking is not exploration time
            deadline += time.monotonic() - t0

    emit(
        {
            "type": "summary",
            "lane": lane,
            "runs": runs,
            "nontrivial": nontrivial,
            "discarded": discarded,
            "stats": stats,
            "sets": {k: sorted(s) for k, s in sets.items()},
            "digests": len(digests),
            "nt_digests": sorted(x for x in nt_digests if x),
            "samples": samples,
            "known_seen": known_seen,
        }
    )
    return 0


if __name__ == "__main__":
    sys.exit(main())
