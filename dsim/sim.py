"""Driving real simulations from scenario parts: build, operate, observe."""

from __future__ import annotations

import contextlib
import warnings

from . import use_repo

use_repo()

from openfisca_core import periods  # noqa: E402
from openfisca_core.experimental import MemoryConfig  # noqa: E402
from openfisca_core.populations import ADD, DIVIDE  # noqa: E402
from openfisca_core.simulations import SimulationBuilder  # noqa: E402

from . import seams  # noqa: E402
from .compile import World, tile  # noqa: E402
from .ctx import CTX, RunTooBig  # noqa: E402
from .history import outcome  # noqa: E402

warnings.filterwarnings("ignore")


def build_sim(world: World, situation: dict, knobs: dict | None = None, inputs=(), tbs=None):
    """Build with the real builder, apply knobs, then set inputs (so they can spill)."""
    knobs = knobs or {}
    tbs = tbs or world.tbs
    if "blacklist" in knobs:
        tbs.cache_blacklist = frozenset(knobs["blacklist"]) or None
    with warnings.catch_warnings():
        warnings.simplefilter("ignore")
        sim = SimulationBuilder().build_from_entities(tbs, _copy_situation(situation))
        if knobs.get("groups_first"):
            # the survey-style builder flow (builder.populations given by hand, declare_*,
            # join_with_persons, build) hands Simulation whatever mapping it was given: here
            # the group populations come before the persons
            from openfisca_core.simulations import Simulation

            sim = Simulation(tbs, dict(reversed(list(sim.populations.items()))))
        apply_knobs(sim, knobs)
        for var, period, values in inputs:
            try:
                set_input(sim, world, var, period, values)
            except Exception:  # noqa: BLE001,S110  refused inputs are refused for every twin alike
                pass
    for name, spec in world.var_specs.items():
        CTX.counts[name] = sim.populations[spec["entity"]].count
    return sim


def _copy_situation(sit):
    return {k: {i: (dict(v) if isinstance(v, dict) else v) for i, v in d.items()} for k, d in sit.items()}


def apply_knobs(sim, knobs) -> None:
    if "max_spiral_loops" in knobs:
        sim.max_spiral_loops = knobs["max_spiral_loops"]
    mem = knobs.get("memory")
    if mem:
        with warnings.catch_warnings():
            warnings.simplefilter("ignore")
            sim.memory_config = MemoryConfig(
                max_memory_occupation=mem["max"],
                priority_variables=mem.get("priority", ()),
                variables_to_drop=mem.get("drop", ()),
            )
    if knobs.get("opt_out"):
        sim.opt_out_cache = True
    if knobs.get("trace"):
        sim.trace = True


def set_input(sim, world: World, var, period, values, form=None):
    spec = world.var_specs[var]
    count = sim.populations[spec["entity"]].count
    array = tile(values, count, spec, world)
    if form is not None:
        array = value_form(sim, spec, array, form >> 4)
        period = period_form(period, form)
    with warnings.catch_warnings():
        warnings.simplefilter("ignore")
        sim.set_input(var, period, array)


# --- equivalent forms of one call ------------------------------------------------ #
# The public API accepts the same request in several forms (a period as text, as a
# Period object, a year as an int; values as an array of the variable's type, of a
# wider type, as a plain list, enum values as names / members / an EnumArray; a
# calculation through Simulation.calculate, calculate_output or by calling the
# population).  The system under test is driven through a form drawn from the
# operation itself; references (twins, fresh simulations, the plain run) always use
# the canonical one - so every differential oracle also compares across forms.


def form_of(op, salt=0) -> int:
    import json
    import zlib

    return zlib.crc32(json.dumps([op, salt], sort_keys=True, default=str).encode())


def period_form(text, form):
    if not isinstance(text, str) or text == "ETERNITY":
        return text
    k = form % 4
    if k == 2:
        return periods.period(text)
    if k == 3:
        return int(text) if len(text) == 4 and text.isdigit() else periods.period(text)
    return text


def value_form(sim, spec, array, k):
    import numpy

    k %= 4
    t = spec["type"]
    if k < 2 or t == "date":
        return array
    if t == "float":
        return array.astype(numpy.float64) if k == 2 else [float(x) for x in array.astype(numpy.float64)]
    if t == "int":
        return array.astype(numpy.int64) if k == 2 else [int(x) for x in array]
    if t == "bool":
        return [bool(x) for x in array]
    if t == "str":
        return [str(x) for x in array] if k == 3 else array
    if t == "enum":
        enum = sim.tax_benefit_system.get_variable(spec["name"]).possible_values
        if k == 2:
            return enum.encode(array)
        return [enum[str(x)] for x in array]
    return array


def apply_op(sim, world: World, op, plan=None, form=None):
    """One top-level API call = one atomic step.  Returns ('ok', value)|('exc', e).
    form: None for the canonical form of the call, else an int choosing an equivalent one."""
    kind = op[0]
    CTX.begin(plan)
    with warnings.catch_warnings():
        warnings.simplefilter("ignore")
        if form is not None and kind in ("calculate", "calculate_add", "calculate_divide", "get_array", "delete_arrays"):
            per = period_form(op[2], form) if len(op) > 2 else None
            how = (form >> 4) % 4
            spec = world.var_specs.get(op[1])
            if kind == "calculate":
                if how == 2 and spec is not None:
                    # (the way formulas-outside-formulas are written: simulation.household("rent", period))
                    return _guard(lambda: getattr(sim, spec["entity"])(op[1], per))
                if how == 3 and not (spec or {}).get("calculate_output"):
                    # (a variable without a calculate_output helper: plain calculate)
                    return _guard(lambda: sim.calculate_output(op[1], per))
                return _guard(lambda: sim.calculate(op[1], per))
            if kind in ("calculate_add", "calculate_divide"):
                if how >= 2 and spec is not None:
                    option = ADD if kind == "calculate_add" else DIVIDE
                    return _guard(lambda: getattr(sim, spec["entity"])(op[1], per, options=[option]))
                return _guard(lambda: getattr(sim, kind)(op[1], per))
            if kind == "get_array":
                return _guard(lambda: sim.get_array(op[1], per))
            return _guard(lambda: sim.delete_arrays(op[1], per))
        if kind == "calculate":
            return _guard(lambda: sim.calculate(op[1], op[2]))
        if kind == "calculate_add":
            return _guard(lambda: sim.calculate_add(op[1], op[2]))
        if kind == "calculate_divide":
            return _guard(lambda: sim.calculate_divide(op[1], op[2]))
        if kind == "set_input":
            return _guard(lambda: set_input(sim, world, op[1], op[2], op[3], form))
        if kind == "delete_arrays":
            return _guard(lambda: sim.delete_arrays(op[1], op[2] if len(op) > 2 else None))
        if kind == "get_array":
            return _guard(lambda: sim.get_array(op[1], op[2]))
        if kind == "trace":
            return _guard(lambda: setattr(sim, "trace", bool(op[1])))
    raise ValueError(op)


class GeneratedCodeBug(BaseException):
    """A generated formula failed in its *own* text (a name, attribute or type error raised
    by a line of the generated module, not by the engine or an injected fault): the world
    generator or compiler is wrong.  A harness error, never an outcome."""


def _guard(fn):
    try:
        return ("ok", fn())
    except RunTooBig:
        raise
    except Exception as e:  # noqa: BLE001
        if isinstance(e, (AttributeError, NameError, TypeError, IndexError, KeyError, SyntaxError, UnboundLocalError)) and not isinstance(e, RecursionError):
            tb = e.__traceback__
            last = None
            while tb is not None:
                last = tb
                tb = tb.tb_next
            if last is not None and last.tb_frame.f_code.co_filename.startswith("<dsim-world-"):
                raise GeneratedCodeBug(f"{type(e).__name__}: {e} at line {last.tb_lineno} of {last.tb_frame.f_code.co_filename}") from e
        return ("exc", e)


@contextlib.contextmanager
def observing(env: seams.Env | None):
    """Harness observation: reads of spill files are neither counted nor faulted."""
    fs = env.fs if env is not None else None
    if fs is not None:
        fs.quiet += 1
    try:
        yield
    finally:
        if fs is not None:
            fs.quiet -= 1


def readable(sim, env=None) -> dict:
    """Everything readable: {(variable, period_str): array} via the public getters
    of the holders that exist (observation must not create holders)."""
    out = {}
    with observing(env):
        for population in sim.populations.values():
            for name in sorted(population._holders):
                holder = population._holders[name]
                for period in holder.get_known_periods():
                    try:
                        out[name, str(period)] = holder.get_array(period)
                    except Exception as e:  # noqa: BLE001  (e.g. D4: unreadable spill file)
                        out[name, str(period)] = e
    return out


def locations(sim) -> dict:
    """{(variable, period_str): 'mem'|'disk'|'both'} — state measure for reach."""
    out = {}
    for population in sim.populations.values():
        for name, holder in population._holders.items():
            for p in holder._memory_storage.get_known_periods():
                out[name, str(p)] = "mem"
            if holder._disk_storage is not None:
                for p in holder._disk_storage.get_known_periods():
                    out[name, str(p)] = "both" if (name, str(p)) in out else "disk"
    return out


def stack_state(sim):
    tracer = sim.tracer
    cursor = getattr(tracer, "_current_node", None)
    return {
        "stack": len(tracer.stack),
        "cursor": None if cursor is None else f"{cursor.name}<{cursor.period}>",
        "invalidated": len(sim.invalidated_caches),
    }


def period_str(p) -> str:
    return str(periods.period(p))


def preload(sim, values: dict) -> None:
    """Give a simulation already-known values through the holder's cache entry point."""
    for (var, period), array in values.items():
        if isinstance(array, BaseException):
            continue
        holder = sim.get_holder(var)
        holder.put_in_cache(array, periods.period(period))


def watch_spirals(sim) -> list:
    """Count spiral cuts with an instance-level wrapper (an attribute set on the
    simulation object, not a change to the class)."""
    seen = []
    real = sim.invalidate_spiral_variables

    def wrapper(variable):
        seen.append(variable)
        return real(variable)

    sim.invalidate_spiral_variables = wrapper
    sim._dsim_spirals = seen
    return seen


def watch_calls(sim) -> list:
    """The harness's own call tree, independent of the tracer: an instance-level
    wrapper around `simulation.calculate` (an attribute set on the simulation
    object, not a change to the class) logs every invocation with its nesting -
    sub-period calls of an ADD request and cache hits included."""
    roots: list = []
    real = sim.calculate

    def calculate(variable_name, period):
        node = {"name": variable_name, "period": str(periods.period(period)) if period is not None else None,
                "children": [], "value": None, "failed": True, "frame": None}
        (CTX.call_stack[-1]["children"] if CTX.call_stack else roots).append(node)
        CTX.call_stack.append(node)
        try:
            result = real(variable_name, period)
            node["value"] = result
            node["failed"] = False
            return result
        finally:
            CTX.call_stack.pop()

    sim.calculate = calculate
    sim._dsim_calls = roots
    return roots
