"""Driver: lanes of fresh-interpreter workers, aggregation, determinism self-test,
replay confirmation, known findings, evidence (DESIGN 3.7-3.10, 9)."""

from __future__ import annotations

import json
import os
import subprocess
import sys
import time

from . import REPO, VERIF
from .rng import hash_seed_for_lane

PY = sys.executable
LANES = 16


def optimize_for_lane(lane: int) -> bool:
    """Two lanes in sixteen run their interpreter with assertions disabled (python -O,
    PYTHONOPTIMIZE=1), as production deployments often do: code under test whose `assert`
    statements have side effects behaves differently there."""
    return lane % 8 == 7


def _env(hash_seed: int, optimize: bool = False) -> dict:
    env = dict(os.environ)
    env.pop("PYTHONOPTIMIZE", None)
    if optimize:
        env["PYTHONOPTIMIZE"] = "1"
    env.update(
        PYTHONHASHSEED=str(hash_seed),
        NUMEXPR_MAX_THREADS="1",
        NUMEXPR_NUM_THREADS="1",
        OMP_NUM_THREADS="1",
        OPENBLAS_NUM_THREADS="1",
        MKL_NUM_THREADS="1",
        PYTHONDONTWRITEBYTECODE="1",
        PYTHONPATH=VERIF + os.pathsep + env.get("PYTHONPATH", ""),
        VERIF_REPO=REPO,
    )
    return env


def spawn(cfg: dict, hash_seed: int, optimize: bool = False):
    return subprocess.Popen(
        [PY, "-m", "dsim.worker", json.dumps(cfg)],
        stdout=subprocess.PIPE,
        stderr=subprocess.PIPE,
        env=_env(hash_seed, optimize),
        cwd=VERIF,
        text=True,
    )


def collect(procs, wall_limit: float):
    """Wait for workers; a killed, crashed or silent worker is a harness error."""
    out = []
    errors = []
    deadline = time.monotonic() + wall_limit
    for tag, p in procs:
        remaining = max(1.0, deadline - time.monotonic())
        try:
            stdout, stderr = p.communicate(timeout=remaining)
        except subprocess.TimeoutExpired:
            p.kill()
            stdout, stderr = p.communicate()
            errors.append(f"worker {tag} exceeded the wall limit and was killed\n{stderr[-2000:]}")
            continue
        lines = []
        for line in stdout.splitlines():
            line = line.strip()
            if not line.startswith("{"):
                continue
            try:
                lines.append(json.loads(line))
            except json.JSONDecodeError:
                errors.append(f"worker {tag}: unparsable line {line[:200]}")
        if p.returncode != 0:
            errs = [l for l in lines if l.get("type") == "harness_error"]
            msg = errs[0]["trace"] if errs else stderr[-3000:]
            errors.append(f"worker {tag} exited {p.returncode}: {msg}")
        out.append((tag, lines))
    return out, errors


def replay_file(prop: str, path: str, timeout=300):
    """Replay a scenario file in a fresh interpreter with its recorded hash seed."""
    scn = json.load(open(path))
    cfg = {"check": prop, "replay": path, "hard_timeout": timeout}
    p = spawn(cfg, scn.get("hash_seed", 0) or 0, bool(scn.get("py_optimize")))
    (res, errors) = collect([("replay", p)], timeout + 10)
    if errors:
        return None, errors
    for _tag, lines in res:
        for l in lines:
            if l.get("type") == "replay":
                return l, []
    return None, ["replay produced no result"]


def reproduces(prop: str, path: str):
    scn = json.load(open(path))
    exp = scn.get("expect") or {}
    out, errors = replay_file(prop, path)
    if errors:
        return False, errors, out
    ok = exp.get("clause") in (out.get("clauses") or [])
    if ok and exp.get("digest") and out.get("digest") != exp["digest"]:
        return False, [f"clause reproduces but digest differs: {out.get('digest')} != {exp['digest']}"], out
    return ok, [], out


def load_findings():
    path = os.path.join(VERIF, "known_findings.json")
    if not os.path.exists(path):
        return []
    return json.load(open(path)).get("findings", [])


def run_check(prop: str, tier: str) -> int:
    from . import findings as F
    from .checks import load

    check = load(prop)
    base = int(os.environ.get("VERIF_SEED", "0") or 0)
    default_budget = {"quick": 40.0, "thorough": 900.0}[tier]
    budget = float(os.environ.get("VERIF_BUDGET_S", default_budget))
    lanes = LANES
    ncpu = os.cpu_count() or 4
    sample = {"quick": 32, "thorough": 256}[tier]
    t_start = time.monotonic()

    replay_dir = os.path.join(os.environ.get("VERIF_REPLAY_ROOT") or os.path.join(VERIF, "replays"), prop)
    # (sensitivity runs only need to know whether *some* violation is found: with
    # VERIF_FAIL_FAST the lanes stop exploring as soon as one of them has reported one)
    stop_file = f"/dev/shm/dsim-stop-{os.getpid()}" if os.environ.get("VERIF_FAIL_FAST") else None
    procs = []
    for lane in range(lanes):
        cfg = {
            "check": prop,
            "tier": tier,
            "base": base,
            "lane": lane,
            "lanes": lanes,
            "stop_file": stop_file,
            "budget_s": budget,
            "sample_upto": sample,
            "hard_timeout": int(budget * 3 + 240),
            "shrink_s": 30.0 if tier == "quick" else 60.0,
            "replay_dir": replay_dir,
        }
        procs.append((f"lane{lane}", spawn(cfg, hash_seed_for_lane(base, lane), optimize_for_lane(lane) and not getattr(check, "NO_OPTIMIZE", False))))
    results, errors = collect(procs, budget * 3 + 300)
    if stop_file and os.path.exists(stop_file):
        os.remove(stop_file)

    runs = nontrivial = discarded = 0
    stats: dict = {}
    sets: dict = {}
    samples = []
    nt_digests = set()
    digests_a = {}
    violations = []
    unreproduced = []
    known_in_workers: dict = {}
    for _tag, lines in results:
        for l in lines:
            t = l.get("type")
            if t == "summary":
                runs += l["runs"]
                nontrivial += l["nontrivial"]
                discarded += l["discarded"]
                for k, n in l["stats"].items():
                    stats[k] = stats.get(k, 0) + n
                for k, s in l["sets"].items():
                    sets.setdefault(k, set()).update(s)
                nt_digests.update(l["nt_digests"])
                samples.extend(l["samples"])
                for fid, n in (l.get("known_seen") or {}).items():
                    known_in_workers[fid] = known_in_workers.get(fid, 0) + n
            elif t == "digest":
                digests_a[l["i"]] = l["d"]
            elif t == "violation":
                violations.append(l)
            elif t == "unreproduced":
                unreproduced.append(l)
    explore_s = time.monotonic() - t_start

    # ---- determinism self-test: same seeds, reversed order, other process ---- #
    det = {"seeds": 0, "mismatches": 0, "hash_seed": "same"}
    if digests_a and not errors:
        idx = sorted(digests_a)
        procs = []
        hash_free = getattr(check, "HASH_FREE", False)
        det["hash_seed"] = "different" if hash_free else "same"
        for lane in range(lanes):
            mine = [i for i in reversed(idx) if i % lanes == lane]
            if not mine:
                continue
            hs = hash_seed_for_lane(base, lane)
            if hash_free:
                hs = 1 + (hs + 977) % 4096
            cfg = {"check": prop, "tier": tier, "base": base, "indices": mine, "hard_timeout": int(budget * 3 + 240), "max_violations": 0}
            procs.append((f"det{lane}", spawn(cfg, hs, optimize_for_lane(lane) and not getattr(check, "NO_OPTIMIZE", False))))
        res_b, err_b = collect(procs, budget * 3 + 300)
        errors += err_b
        digests_b = {}
        for _tag, lines in res_b:
            for l in lines:
                if l.get("type") == "digest":
                    digests_b[l["i"]] = l["d"]
        det["seeds"] = len(digests_b)
        bad = [i for i in digests_b if digests_b[i] != digests_a.get(i)]
        det["mismatches"] = len(bad)
        if bad:
            errors.append(f"determinism self-test: {len(bad)} of {len(digests_b)} seeds gave different digests, e.g. index {bad[:5]}")

    # ---- known findings: canaries --------------------------------------------- #
    known = [f for f in load_findings() if f["property"] == prop and f.get("status") == "open"]
    known_lines = []
    for f in known:
        canary = os.path.join(VERIF, f["replay"]) if f.get("replay") else None
        still = None
        if canary and os.path.exists(canary):
            still, cerr, _ = reproduces(prop, canary)
            if cerr and not still:
                still = False
        f["_still"] = still
        if still is False:
            known_lines.append(f"NOTE: known finding {f['id']} no longer reproduces from its canary replay ({f['replay']})")
        else:
            known_lines.append(f"KNOWN-FINDING: property={prop} {f['id']}: {f['summary']}")

    # ---- fixed findings suppress nothing: their replays must stay clean -------- #
    unmatched = []
    regress = 0
    for f in load_findings():
        if f["property"] != prop or f.get("status") != "fixed" or not f.get("replay"):
            continue
        path = os.path.join(VERIF, f["replay"])
        if not os.path.exists(path):
            continue
        regress += 1
        back, rerr, _ = reproduces(prop, path)
        if back:
            unmatched.append({"replay": path, "clause": json.load(open(path))["expect"]["clause"], "seed": f"regression of fixed finding {f['id']}"})

    # ---- violations a worker could not reproduce in-process -------------------- #
    # Reported only if they reproduce in fresh interpreters, twice over; otherwise
    # they are non-replayable: a harness error, never a VIOLATION and never a pass.
    for u in unreproduced[:4]:
        outs = [replay_file(prop, u["replay"])[0] for _ in range(2)]
        ok = all(o and u["clause"] in (o.get("clauses") or []) for o in outs)
        if ok and outs[0].get("digest") == outs[1].get("digest"):
            scn = json.load(open(u["replay"]))
            scn["expect"] = {"clause": u["clause"], "digest": outs[0].get("digest")}
            with open(u["replay"], "w") as f:
                json.dump(scn, f, indent=1, default=str)
            violations.append(u)
        else:
            errors.append(f"violation {u['clause']} (seed {u['seed']}) seen during exploration is not replayable: not in the same process, "
                          f"not in fresh interpreters - something the simulator does not control (S6: object identity / allocator state) is involved; scenario kept at {u['replay']}")

    # ---- violations: confirm by replay in a fresh interpreter ----------------- #
    matched = dict(known_in_workers)
    for v in violations:
        path = v["replay"]
        ok, rerr, _out = reproduces(prop, path)
        if not ok:
            errors.append(f"violation {v['clause']} (seed {v['seed']}) did not reproduce from {path}: {rerr}")
            continue
        scn = json.load(open(path))
        fid = F.match(known, v["violation"], scn)
        if fid:
            matched[fid] = matched.get(fid, 0) + 1
            try:
                os.remove(path)  # already documented by the finding's canary
            except OSError:
                pass
        else:
            unmatched.append(v)

    wall = time.monotonic() - t_start
    evidence = {
        "property_id": prop,
        "tier": tier,
        "seed": base,
        "level": check.LEVEL,
        "coverage": {
            "evaluations": int(stats.get("executions", runs)),
            "distinct_nontrivial": len(nt_digests),
            "rule": check.RULE,
            "samples": samples[:3] or [{"note": "no non-trivial sample captured"}],
            "simulated_runs": runs,
            "runs_discarded": discarded,
            "runs_per_hour": int(runs / max(explore_s, 1e-9) * 3600),
            "executions_per_hour": int(stats.get("executions", runs) / max(explore_s, 1e-9) * 3600),
            "seeds": f"run_seed({base}, i) for i in 0..{runs - 1} interleaved over {lanes} lanes",
            "steps": stats.get("steps", 0),
            "simulated_time": {
                "scheduler_steps": stats.get("steps", 0),
                "virtual_clock_reads": stats.get("clock_reads", 0),
                "memory_pressure_reads": stats.get("mem_reads", 0),
                "note": "no deadline in the system reads a clock; simulated time is reported as steps and seam reads",
            },
            "faults_fired": {k[6:]: n for k, n in sorted(stats.items()) if k.startswith("fault:")},
            "clauses": {k[7:]: n for k, n in sorted(stats.items()) if k.startswith("clause:")},
            "probes": {k[6:]: n for k, n in sorted(stats.items()) if k.startswith("probe:")},
            "distinct_interleavings": len(sets.get("interleavings", ())),
            "distinct_states": len(sets.get("states", ())),
            "other_counts": {k: n for k, n in sorted(stats.items()) if ":" not in k},
            "determinism": det,
            "components": getattr(check, "COMPONENTS", {}),
            "known_findings_seen": matched,
            "fixed_finding_replays_checked": regress,
            "unmatched_violations": len(unmatched),
            "lanes": lanes,
            "cpus": ncpu,
        },
        "assumptions": getattr(check, "ASSUMPTIONS", [])
        + [
            "sampling, not proof: a clean batch is evidence only",
            "each run is a pure function of its scenario and of the code under " + REPO,
        ],
        "wall_s": round(wall, 2),
        "violations": len(unmatched),
    }
    evidence_dir = os.environ.get("VERIF_EVIDENCE_DIR") or os.path.join(VERIF, "evidence")
    os.makedirs(evidence_dir, exist_ok=True)
    sens_path = os.path.join(VERIF, "sensitivity.json")
    if os.path.exists(sens_path):
        try:
            sens = json.load(open(sens_path)).get(prop)
            if sens:
                evidence["coverage"]["sensitivity"] = sens
        except Exception:  # noqa: BLE001,S110
            pass
    with open(os.path.join(evidence_dir, f"{prop}.json"), "w") as f:
        json.dump(evidence, f, indent=1, default=str)

    print(f"{prop} {tier}: {runs} runs ({discarded} discarded), {evidence['coverage']['evaluations']} executions, "
          f"{len(nt_digests)} distinct non-trivial, {wall:.1f}s; determinism {det}")
    for line in known_lines:
        print(line)
    for fid, n in matched.items():
        print(f"  ({n} explored violations matched known finding {fid})")
    if errors:
        for e in errors:
            print("HARNESS-ERROR:", e)
        return 2
    if unmatched:
        seen = set()
        for v in unmatched:
            print(f"VIOLATION property={prop} replay={v['replay']}  # {v['clause']} seed={v['seed']}")
            seen.add(v["clause"])
        return 1
    return 0


def run_replay(path: str) -> int:
    scn = json.load(open(path))
    prop = scn["property"]
    ok, errors, out = reproduces(prop, path)
    print(json.dumps(out, indent=1, default=str)[:3000])
    if errors and not ok:
        for e in errors:
            print("HARNESS-ERROR:", e)
        return 2
    if ok:
        print(f"VIOLATION property={prop} replay={path}")
        return 1
    print("no violation reproduced")
    return 0
