"""setup_cmd: nothing is compiled, nothing is fetched.  Verifies that the
repository imports from the working tree, that every seam installs and
uninstalls cleanly, and that one seed per check runs twice with equal digests."""

from __future__ import annotations

import importlib
import json
import os
import sys


def main() -> int:
    from . import REPO, VERIF, use_repo

    sys.unraisablehook = lambda u: None  # finalizer noise of discarded simulations

    use_repo()
    import openfisca_core

    where = os.path.dirname(os.path.dirname(os.path.abspath(openfisca_core.__file__)))
    if os.path.realpath(where) != os.path.realpath(REPO):
        print(f"HARNESS-ERROR: openfisca_core imported from {where}, expected {REPO}")
        return 2
    from . import seams

    env = seams.Env(mem=seams.SimMem([50.0]), fs=seams.SimFS(), clock=seams.SimClock())
    import openfisca_core.holders.holder as m_holder
    import psutil

    with env:
        assert m_holder.psutil is env.mem
    assert m_holder.psutil is psutil, "seam not restored"
    assert not seams.installed()

    from .checks import MODULES, load

    ok = True
    for prop in sorted(MODULES):
        try:
            check = load(prop)
        except ModuleNotFoundError:
            continue
        a = check.run(check.generate(12345, "quick"))
        b = check.run(check.generate(12345, "quick"))
        same = getattr(a, "digest", 1) == getattr(b, "digest", 2)
        print(f"selfcheck {prop}: digest {'stable' if same else 'UNSTABLE'} ({getattr(a, 'digest', None)})")
        ok &= same
    try:
        m = json.load(open(os.path.join(VERIF, "MANIFEST.json")))
        assert m["version"] == 1
    except Exception as e:  # noqa: BLE001
        print("HARNESS-ERROR: MANIFEST.json unreadable:", e)
        return 2
    return 0 if ok else 2


if __name__ == "__main__":
    sys.exit(main())
