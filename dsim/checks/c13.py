"""C13 — a cloned simulation and its original never affect each other.

DESIGN 4.4.  Actors: the original O and 1-2 clones (sometimes a clone of a
clone); ops on any actor interleaved by the seeded scheduler; environment ops
FINALIZE and DROP.  Oracle: twins operated alone.
"""

from __future__ import annotations

import gc
import random

from .. import seams
from ..compile import World
from ..ctx import CTX, RunTooBig
from ..history import History, canon, canon_outcome, digest
from ..rng import Streams, chance, pick, weighted, steps
from ..sim import apply_op, form_of, build_sim, locations, readable, stack_state
from ..world import gen_inputs, gen_request, gen_situation, gen_value, gen_world, wide_knob
from . import Result
from .c18 import make_env

PROPERTY = "C13"
LEVEL = "exploration"
HASH_FREE = False
RULE = (
    "scenario = generated rule system + situation (person and group level, eternal and dated variables) + inputs, "
    "optional memory configuration under a memory-pressure schedule; actors O, C1, C2 (clone of O or of C1 at a "
    "seeded step); 6-16 interleaved ops per run: set_input, delete_arrays (whole / one period / containing period), "
    "calculate, calculate_add, get_array, trace on/off, clone, env FINALIZE, DROP(actor). A run is non-trivial "
    "when a clone exists and at least one write (set_input / delete / calculation that ran a formula) happened on "
    "either side after cloning; distinct = distinct run digests."
)
COMPONENTS = {
    "real": ["Simulation.clone", "Population.clone", "GroupPopulation.clone", "Holder.clone", "Holder", "InMemoryStorage", "OnDiskStorage (+ __del__)", "SimulationBuilder"],
    "stub": ["psutil (SimMem)", "file system (SimFS)", "finalizer delivery (gc.disable + FINALIZE)", "formula bodies (generated)"],
}


def generate(seed: int, tier: str) -> dict:
    st = Streams(seed)
    wr = st["world"]
    profile = weighted(wr, [("acyclic", 7), ("spiral", 3)])
    world = gen_world(wr, discipline=profile, n_vars=wr.randint(3, 8 if tier == "quick" else 12), max_depth=2, wide=wide_knob(wr, tier, 0.15, cap=4100))
    ir = st["inputs"]
    situation = gen_situation(ir, world, max_persons=4)
    inputs = gen_inputs(ir, world, p=0.45)
    kr = st["knobs"]
    knobs = {"max_spiral_loops": kr.randint(1, 3)}
    if chance(kr, 0.3):
        knobs["groups_first"] = True
    env = {}
    names = [v["name"] for v in world["variables"]]
    if chance(kr, 0.45):
        # (variables to drop: their *computed* values are not kept - inputs are)
        knobs["memory"] = {"max": pick(kr, [0.0, 0.5, 1.0]), "priority": [n for n in names if chance(kr, 0.2)],
                           "drop": [n for n in names if chance(kr, 0.25)]}
        env["mem"] = pick(kr, ["high", "high", "flap", "edge", "low"])
        env["mem_seed"] = kr.randrange(1 << 30)
    orr = st["ops"]
    n_ops = steps(orr, 6, 12 if tier == "quick" else 20)
    ops = []
    alive = ["O"]
    clones = 0
    clone_at = orr.randint(0, 3)

    def gen_write(actor):
        kind = weighted(orr, [("set_input", 4), ("delete", 3), ("calc", 5), ("get", 1), ("trace", 1)])
        v = pick(orr, world["variables"])
        if kind == "set_input":
            from ..world import _REQ_MONTHS, _REQ_YEARS, _REQ_DAYS

            u = v["unit"]
            per = {"month": pick(orr, _REQ_MONTHS), "year": pick(orr, _REQ_YEARS), "day": pick(orr, _REQ_DAYS), "eternity": "ETERNITY"}.get(u, "2018-01")
            if v.get("set_input") and u == "month" and chance(orr, 0.3):
                per = "2018"
            return {"actor": actor, "do": ["set_input", v["name"], per, [gen_value(orr, v, world) for _ in range(orr.randint(1, 3))]]}
        if kind == "delete":
            from ..world import _REQ_MONTHS, _REQ_YEARS

            if chance(orr, 0.4) or v["unit"] == "eternity":
                return {"actor": actor, "do": ["delete_arrays", v["name"]]}
            per = pick(orr, _REQ_MONTHS) if v["unit"] == "month" and chance(orr, 0.5) else pick(orr, _REQ_YEARS)
            return {"actor": actor, "do": ["delete_arrays", v["name"], per]}
        if kind == "calc":
            return {"actor": actor, "do": gen_request(orr, world)}
        if kind == "get":
            r = gen_request(orr, world, allow_options=False)
            return {"actor": actor, "do": ["get_array", r[1], r[2]]}
        return {"actor": actor, "do": ["trace", chance(orr, 0.5)]}

    for k in range(n_ops):
        if clones < 2 and (k == clone_at or (clones == 1 and chance(orr, 0.12))):
            src = pick(orr, alive)
            name = f"C{clones + 1}"
            # clone() with its default arguments, or with trace stated either way
            ops.append({"actor": name, "do": ["clone", src, pick(orr, [None, None, False, True])]})
            alive.append(name)
            clones += 1
            continue
        r = orr.random()
        if r < 0.08:
            ops.append({"actor": "env", "do": ["FINALIZE"]})
            continue
        if r < 0.13 and len(alive) > 1:
            a = pick(orr, alive)
            alive.remove(a)
            ops.append({"actor": a, "do": ["DROP"]})
            ops.append({"actor": "env", "do": ["FINALIZE"]})
            continue
        ops.append(gen_write(pick(orr, alive)))
    return {
        "format": 1,
        "property": PROPERTY,
        "profile": profile,
        "seed": seed,
        "world": world,
        "situation": situation,
        "knobs": knobs,
        "inputs": inputs,
        "env": env,
        "ops": ops,
    }


# --------------------------------------------------------------------------- #


def structure(sim):
    out = {}
    for key, pop in sim.populations.items():
        rec = {"ids": [str(i) for i in pop.ids], "count": int(pop.count)}
        if not pop.entity.is_person:
            rec["members_entity_id"] = canon(pop.members_entity_id)
            rec["members_position"] = canon(pop.members_position)
            rec["members_role"] = [getattr(r, "key", repr(r)) for r in pop.members_role]
        out[key] = rec
    return out


def ownership(clone, source):
    """Every part of the clone refers to the clone rather than to the original."""
    bad = []
    for key, pop in clone.populations.items():
        if pop.simulation is not clone:
            bad.append(f"population {key}: simulation is not the clone")
        if pop is source.populations[key]:
            bad.append(f"population {key}: same object as the original's")
        if getattr(clone, key, None) is not pop:
            bad.append(f"shortcut {key} does not designate the clone's population")
        if not pop.entity.is_person and pop.members is not clone.persons:
            bad.append(f"group population {key}: members are not the clone's persons")
        for name, holder in pop._holders.items():
            if holder.population is not pop:
                bad.append(f"holder {name}: population is not the clone's")
            if holder.simulation is not clone:
                bad.append(f"holder {name}: simulation is not the clone")
            src = source.populations[key]._holders.get(name)
            if src is not None:
                if holder is src:
                    bad.append(f"holder {name}: same object as the original's")
                if holder._memory_storage is src._memory_storage:
                    bad.append(f"holder {name}: memory store shared with the original")
                if holder._disk_storage is not None and holder._disk_storage is src._disk_storage:
                    bad.append(f"holder {name}: disk store shared with the original")
    if clone.tracer is source.tracer:
        bad.append("tracer (evaluation stack, trace trees, request counters) shared with the original")
    if clone.persons is not clone.populations[clone.persons.entity.key]:
        bad.append("persons is not the clone's person population")
    return bad


def run(scn) -> Result:
    res = Result()
    world = World(scn["world"])
    H = History()
    env = make_env(scn)
    try:
        with env:
            actors = {"O": build_sim(world, scn["situation"], scn["knobs"], scn["inputs"])}
            twins = {"O": build_sim(world, scn["situation"], scn["knobs"], scn["inputs"])}
            own = {"O": []}
            writes_after_clone = 0
            any_clone = False
            for step, op in enumerate(scn["ops"]):
                a, do = op["actor"], op["do"]
                kind = do[0]
                if kind == "FINALIZE":
                    gc.collect()
                    res.count("fault:finalize")
                    H.add("env", "FINALIZE")
                elif kind == "DROP":
                    if a not in actors or len(actors) <= 1:
                        continue
                    del actors[a], twins[a], own[a]
                    res.count("fault:drop_actor")
                    H.add(a, "DROP")
                elif kind == "clone":
                    src = do[1]
                    if src not in actors or a in actors:
                        continue
                    try:
                        how = do[2] if len(do) > 2 else None
                        c = actors[src].clone() if how is None else actors[src].clone(trace=bool(how))
                    except Exception as e:  # noqa: BLE001
                        res.violate("C13.snapshot", step, op=do, error=type(e).__name__)
                        break
                    actors[a] = c
                    any_clone = True
                    # the twin is built by replaying the source's own history, never by cloning
                    t = build_sim(world, scn["situation"], scn["knobs"], scn["inputs"])
                    for old in own[src]:
                        apply_op(t, world, old)
                    want = bool(do[2]) if len(do) > 2 and do[2] is not None else False  # the default is "not traced"
                    # clone(trace=...) decides, whatever the source had, and a clone starts
                    # with a tracer of its own, empty
                    t.trace = want
                    twins[a] = t
                    own[a] = list(own[src])
                    H.add(a, "clone", [src])
                    res.count("steps")
                    # C13.snapshot
                    res.count("clause:C13.snapshot")
                    rs, rc = readable(actors[src], env), readable(c, env)
                    if canon({str(k): v for k, v in rs.items()}) != canon({str(k): v for k, v in rc.items()}):
                        diff = sorted(str(k) for k in set(rs) ^ set(rc))[:4]
                        res.violate("C13.snapshot", step, op=do, what="values differ right after clone", keys=diff)
                    if structure(actors[src]) != structure(c):
                        res.violate("C13.snapshot", step, op=do, what="entity structure differs right after clone")
                    if c.max_spiral_loops != actors[src].max_spiral_loops or c.memory_config is not actors[src].memory_config or c.opt_out_cache != actors[src].opt_out_cache:
                        res.violate("C13.snapshot", step, op=do, what="settings differ right after clone")
                    # C13.ownership
                    res.count("clause:C13.ownership")
                    bad = ownership(c, actors[src])
                    if bad:
                        res.violate("C13.ownership", step, op=do, problems=bad[:6], memory=bool(scn["knobs"].get("memory")))
                else:
                    if a not in actors:
                        continue
                    out = apply_op(actors[a], world, do, form=form_of(do, step))
                    ran = len(CTX.frames)
                    tout = apply_op(twins[a], world, do)
                    own[a].append(do)
                    if any_clone and (kind in ("set_input", "delete_arrays") or ran):
                        writes_after_clone += 1
                    H.add(a, kind, do[1:], canon_outcome(out), None)
                    res.count("steps")
                    res.count("clause:C13.isolation")
                    if canon_outcome(out) != canon_outcome(tout):
                        res.violate("C13.isolation", step, actor=a, op=do, what="outcome differs from the twin operated alone",
                                    expected=canon_outcome(tout), got=canon_outcome(out), memory=bool(scn["knobs"].get("memory")))
                # C13.isolation over everything readable, every live actor --------
                for name in sorted(actors):
                    ra, rt = readable(actors[name], env), readable(twins[name], env)
                    ca = {f"{k[0]}@{k[1]}": canon(v) for k, v in ra.items()}
                    ct = {f"{k[0]}@{k[1]}": canon(v) for k, v in rt.items()}
                    # what its tracer recorded is part of what is readable from a simulation
                    ca["(trace)"], ct["(trace)"] = _trace_summary(actors[name]), _trace_summary(twins[name])
                    if ca != ct:
                        keys = sorted(k for k in set(ca) | set(ct) if ca.get(k) != ct.get(k))
                        res.violate(
                            "C13.isolation",
                            step,
                            actor=name,
                            after=[a, do[:3]],
                            what="readable values differ from the twin operated alone",
                            keys=keys[:4],
                            got=[ca.get(k) for k in keys[:2]],
                            expected=[ct.get(k) for k in keys[:2]],
                            memory=bool(scn["knobs"].get("memory")),
                            on_disk=[k for k in keys[:4] if _on_disk(actors[name], k)],
                        )
                H.events[-1][5] = [sorted(f"{n}:{k[0]}@{k[1]}" for n in actors for k in readable(actors[n], env))] if H.events else None
                res.mark("states", digest(sorted([n, sorted([list(k), v] for k, v in locations(actors[n]).items())] for n in actors)))
                if any(v["clause"] != "C13.ownership" for v in res.violations):
                    break
            # observable interference first, structural findings last
            res.violations.sort(key=lambda v: v["clause"] == "C13.ownership")
            res.nontrivial = any_clone and writes_after_clone > 0
            if env.mem is not None:
                res.count("mem_reads", env.mem.reads)
                if env.fs.n["save"]:
                    res.count("probe:disk_put")
            actors.clear()
            twins.clear()
        res.mark("interleavings", digest([(o["actor"], o["do"][0]) for o in scn["ops"]]))
        res.count("executions")
        res.events = H.events
        res.digest = H.digest()
        return res
    except RunTooBig:
        res.discarded = "too big"
        res.violations = []
        return res
    finally:
        world.close()
        seams.Env.uninstall()


def _trace_summary(sim):
    tracer = sim.tracer
    trees = getattr(tracer, "trees", None)
    if trees is None:
        return [bool(sim.trace), len(tracer.stack)]
    def node(n):
        # what was calculated, what its formula read - variables and parameters
        return [f"{n.name}<{n.period}>", sorted(f"{p.name}<{p.period}>" for p in n.parameters), [node(c) for c in n.children]]

    return [bool(sim.trace), len(tracer.stack), [node(t) for t in trees]]


def _on_disk(sim, key):
    if "@" not in key:
        return False
    var, p = key.split("@", 1)
    loc = locations(sim)
    return loc.get((var, p)) in ("disk", "both")


extra_shrinkers = ()
