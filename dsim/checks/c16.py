"""C16 — inputs given on a longer period are conserved when spread over shorter ones.

DESIGN 4.6.  One simulation, several writers issuing set_input on short and long
periods in a scheduled order; optional memory configuration so that pre-set
sub-periods may live on disk when the spreading code asks for them.  Oracle: a
small executable holder model written from the statement, with a stated float
tolerance and an explicit don't-care band for refusals.
"""

from __future__ import annotations

import calendar
import datetime
import random
import warnings

import numpy

from .. import seams
from ..compile import World
from ..ctx import RunTooBig
from ..history import History, canon, canon_outcome, digest
from ..rng import Streams, chance, pick, weighted, steps
from ..sim import apply_op, form_of, build_sim, locations, observing
from ..world import gen_entities, gen_situation
from . import Result
from .c18 import make_env

PROPERTY = "C16"
LEVEL = "exploration"
HASH_FREE = False
RULE = (
    "scenario = 1-4 input variables (float / int; day, month or year defined; divide or repeat rule; person or group "
    "level) + situation + a schedule of 3-10 set_input calls by 2-6 writers on short and long periods (calendar and "
    "rolling years, multi-year, year:Y:n, months of 28-31 days incl. leap Februaries, day ranges, all tiled exactly by "
    "the definition period) interleaved with get_array / calculate_add reads; optional memory configuration under a "
    "memory-pressure schedule. Non-trivial = at least one long-period set_input met at least one pre-set sub-period; "
    "distinct = distinct run digests."
)
COMPONENTS = {
    "real": ["Holder.set_input/_set/_to_array/get_array", "set_input_divide_by_period", "set_input_dispatch_by_period", "Simulation.set_input/calculate_add", "InMemoryStorage", "OnDiskStorage"],
    "stub": ["psutil (SimMem)", "file system (SimFS)"],
}

# --------------------------------------------------------------------------- #
# independent calendar: sub-periods of a long period, as canonical texts
# --------------------------------------------------------------------------- #


def add_months(y, m, n):
    k = (y * 12 + (m - 1)) + n
    return k // 12, k % 12 + 1


def parse_period(text):
    """('year'|'month'|'day', date, size) from the period texts this check generates."""
    if ":" in text:
        parts = text.split(":")
        unit, start = parts[0], parts[1]
        size = int(parts[2]) if len(parts) > 2 else 1
    else:
        start, size = text, 1
        unit = {1: "year", 2: "month", 3: "day"}[len(text.split("-"))]
    bits = [int(x) for x in start.split("-")]
    while len(bits) < 3:
        bits.append(1)
    return unit, datetime.date(*bits), size


def end_exclusive(unit, start, size):
    if unit == "day":
        return start + datetime.timedelta(days=size)
    months = size * (12 if unit == "year" else 1)
    y, m = add_months(start.year, start.month, months)
    d = min(start.day, calendar.monthrange(y, m)[1])
    return datetime.date(y, m, d)


def sub_periods(text, def_unit):
    """Texts of the definition-period-long pieces tiling `text`, in order."""
    unit, start, size = parse_period(text)
    stop = end_exclusive(unit, start, size)
    out = []
    cur = start
    while cur < stop:
        if def_unit == "day":
            out.append(cur.isoformat())
            cur += datetime.timedelta(days=1)
        elif def_unit == "month":
            out.append(f"{cur.year:04d}-{cur.month:02d}")
            y, m = add_months(cur.year, cur.month, 1)
            cur = datetime.date(y, m, 1)
        elif (start.month, start.day) == (1, 1):
            out.append(f"{cur.year:04d}")
            cur = datetime.date(cur.year + 1, 1, 1)
        else:
            # a year-defined variable over a period that does not start in January:
            # year-long pieces from its start (rolling years)
            out.append(f"year:{cur.year:04d}-{cur.month:02d}" if cur.day == 1 else f"year:{cur.isoformat()}")
            y, m = add_months(cur.year, cur.month, 12)
            cur = datetime.date(y, m, cur.day)
    return out


# --------------------------------------------------------------------------- #
# generation
# --------------------------------------------------------------------------- #

LONG = {
    "month": ["2018", "2019", "year:2018-07", "year:2017:2", "month:2018-01:3", "month:2018-11:4", "year:2019-03", "month:2018-06:12",
              "month:2016-12:14", "year:2017:3", "month:2017-06:20"],
    "day": ["2018-02", "2020-02", "2018-01", "2018-04", "month:2018-01:2", "day:2018-02-26:5", "day:2018-01-01:10", "month:2018-01-15", "2019",
            "year:2019-03", "year:2019-07", "year:2020-03", "2020"],
    "year": ["year:2018:2", "year:2017:3", "year:2018:3", "year:2018-07:2", "year:2017-03:3"],
}
# period texts that are their own canonical form (the situation builder files inputs under
# the text of the period): the long periods an input given *in the situation document* uses
DOC_PERIODS = {
    "month": ["2018", "2019", "year:2018-07", "year:2017:2", "month:2018-01:3", "month:2018-11:4", "year:2019-03", "year:2018-03:2",
              "year:2017-07:2", "2018-02", "2018-07"],
    "day": ["2018-02", "2020-02", "2018-01", "month:2018-01:2", "day:2018-02-26:5", "2019", "year:2019-03", "2018-02-28"],
    "year": ["year:2018:2", "year:2017:3", "2018"],
}
SHORT = {
    "month": ["2018-01", "2018-02", "2018-07", "2018-12", "2019-01", "2019-02", "2017-12", "2018-06"],
    "day": ["2018-02-01", "2018-02-28", "2020-02-29", "2018-01-31", "2018-01-15", "2018-02-27", "2018-01-01", "2018-03-01"],
    "year": ["2017", "2018", "2019", "2020"],
}


def _era(text: str, delta: int):
    """The same period (or date) text `delta` years away; None when that day does not exist."""
    import re

    out = re.sub(r"(?<![0-9])(20[0-9]{2})(?![0-9])", lambda m: f"{int(m.group(1)) + delta:04d}", text)
    try:
        parse_period(out) if not re.fullmatch(r"\d{4}-\d{2}-\d{2}", out) else datetime.date.fromisoformat(out)
    except ValueError:
        return None
    return out


def generate(seed: int, tier: str) -> dict:
    st = Streams(seed)
    wr = st["world"]
    ents = gen_entities(wr, n_groups=1)
    # era: the pools below lie around 2018; a quarter of the scenarios live around a century
    # year instead (1900 and 2100 are not leap years, 2000 and 2400 are)
    era = weighted(st["era"], [(0, 7.5), (82, 0.8), (80, 0.4), (-118, 0.8), (-18, 0.3), (382, 0.2)])
    variables = []
    for i in range(wr.randint(1, 4)):
        unit = weighted(wr, [("month", 6), ("day", 3), ("year", 2)])
        variables.append(
            {
                "name": f"v{i}",
                "entity": pick(wr, ents)["key"] if chance(wr, 0.3) else "person",
                "type": weighted(wr, [("float", 7), ("int", 3)]),
                "unit": unit,
                "set_input": weighted(wr, [("divide", 6), ("dispatch", 4)]),
                "formulas": {},
            }
        )
        if chance(wr, 0.3):
            # a default that is not zero (standard monthly hours, a flat amount): what a
            # sub-period nobody set reads as - and no part of any sum of set amounts
            variables[-1]["default"] = pick(wr, [1.0, 151.67, -2.0]) if variables[-1]["type"] == "float" else pick(wr, [1, 7])
        if chance(wr, 0.25):
            # an end date concerns formulas: inputs given for later periods - or for a long
            # period running past it - are inputs all the same
            variables[-1]["end"] = pick(wr, ["2018-06-30", "2018-02-15", "2017-12-31", "2019-01-31",
                                               # the last day a variable exists may be the first day of a period
                                               "2018-01-01", "2018-02-01", "2018-07-01", "2018-02-28", "2019-01-01"])
            variables[-1]["end"] = _era(variables[-1]["end"], era) or variables[-1]["end"]
    world = {"entities": ents, "enums": [], "parameters": {}, "variables": variables, "discipline": "acyclic"}
    situation = gen_situation(st["inputs"], world, max_persons=4)
    kr = st["knobs"]
    knobs = {}
    env = {}
    names = [v["name"] for v in variables]
    if chance(kr, 0.35):
        # "do not cache" settings concern computed values; inputs are honoured all the same
        knobs["memory"] = {"max": pick(kr, [0.0, 0.5, 1.0]), "priority": [n for n in names if chance(kr, 0.2)],
                           "drop": [n for n in names if chance(kr, 0.3)]}
        env["mem"] = pick(kr, ["high", "flap", "edge", "low", "rising"])
        env["mem_seed"] = kr.randrange(1 << 30)
    if chance(kr, 0.2):
        knobs["blacklist"] = [n for n in names if chance(kr, 0.5)]
        knobs["opt_out"] = True
    orr = st["ops"]
    writers = [f"W{k}" for k in range(1, orr.randint(2, 6) + 1)]
    ops = []
    for _ in range(steps(orr, 3, 10 if tier == "quick" else 16)):
        v = pick(orr, variables)
        r = orr.random()
        u = v["unit"]
        if r < 0.4:
            per = _era(pick(orr, LONG[u]), era)
        elif r < 0.75:
            per = _era(pick(orr, SHORT[u]), era)
        elif r < 0.88:
            per = _era(pick(orr, LONG[u]), era)
            if per:
                ops.append({"actor": "R", "do": ["calculate_add", v["name"], per]})
            continue
        elif r < 0.95:
            per = _era(pick(orr, SHORT[u]), era)
            if per:
                ops.append({"actor": "R", "do": ["get_array", v["name"], per]})
            continue
        else:
            # an input withdrawn: one definition period, a long period tiled by them, or
            # everything (what was withdrawn is "not set before" for the inputs that follow)
            per = None if chance(orr, 0.2) else _era(pick(orr, SHORT[u] if (u == "year" or chance(orr, 0.5)) else LONG[u]), era)
            earlier = [o["do"][2] for o in ops if o["do"][0] == "set_input" and o["do"][1] == v["name"]]
            if per is not None and earlier and chance(orr, 0.7):
                # ... preferably something that was set: the period of an earlier input, or
                # one of its pieces (the first, the last, any)
                per = pick(orr, earlier)
                pieces = sub_periods(per, u)
                if u != "year" and len(pieces) > 1 and chance(orr, 0.6):
                    per = pick(orr, [pieces[0], pieces[-1], pieces[-1], pick(orr, pieces)])
            ops.append({"actor": pick(orr, writers), "do": ["delete_arrays", v["name"], per]})
            continue
        if per is None:
            continue  # (29 February of a year that has none)
        n_sub = len(sub_periods(per, u))
        k = orr.randint(1, 3)
        if v["type"] == "int":
            # only amounts every possible count of unknown sub-periods divides (D7 is a
            # separate, listed finding): multiples of lcm(1..n) are too large, so the
            # amount is a multiple of n! / small n, else 0 or n_sub * c
            vals = [orr.choice([0, 1, 2, 5, -3]) * _lcm_upto(n_sub) for _ in range(k)]
        else:
            vals = [orr.choice([0.0, 1.0, 12.0, 100.0, 1200.0, 365.0, 0.5, -24.0, 1e6, 3.3]) for _ in range(k)]
        ops.append({"actor": pick(orr, writers), "do": ["set_input", v["name"], per, vals]})
        if chance(orr, 0.2) and all(float(x) == int(x) for x in vals):
            # the amount as a user types it: a plain list of Python ints, whatever the
            # variable's type (the harness otherwise hands over an array of that type)
            ops[-1]["plain"] = True
        if "memory" in knobs and n_sub > 1 and chance(orr, 0.3):
            # F6: the k-th spill write of this long-period input fails (if it gets that
            # far); the same input is then given again, the cause being gone
            ops[-1]["io_fault"] = {"at": orr.randint(1, min(4, n_sub)), "kind": pick(orr, ["enospc", "enospc_torn"])}
    # Some inputs arrive in the situation document itself (SimulationBuilder) rather than
    # through set_input: one per person-level variable at most, with a value for every
    # person, so that neither the builder's ordering of inputs nor what it does for
    # instances that gave no value (C12, not claimed) comes into play.
    doc_inputs = []
    if chance(orr, 0.35):
        for v in variables:
            if v["entity"] == "person" and not v.get("end") and chance(orr, 0.6):
                per = _era(pick(orr, DOC_PERIODS[v["unit"]]), era)
                if per is None:
                    continue
                n_sub = len(sub_periods(per, v["unit"]))
                if v["type"] == "int":
                    vals = [orr.choice([0, 1, 2, 5, -3]) * _lcm_upto(n_sub) for _ in range(orr.randint(1, 3))]
                else:
                    vals = [orr.choice([0.0, 1.0, 12.0, 100.0, 1200.0, 365.0, 0.5, -24.0, 3.3]) for _ in range(orr.randint(1, 3))]
                doc_inputs.append({"actor": "D", "do": ["set_input", v["name"], per, vals], "prebuilt": True})
    return {
        "format": 1,
        "property": PROPERTY,
        "profile": "inputs",
        "doc_inputs": doc_inputs,
        "seed": seed,
        "world": world,
        "situation": situation,
        "knobs": knobs,
        "inputs": [],
        "env": env,
        "era": era,
        "ops": ops,
    }


def _lcm_upto(n):
    """A number every k <= n divides, kept small: n <= 12 -> 27720, else use n-specific."""
    import math

    if n <= 12:
        return 27720
    if n <= 31:
        # day-in-month / 24-month cases: all counts 1..n must divide; too large for int32
        # when multiplied, so fall back to amounts of 0 (handled by the caller's choice)
        return 0
    return 0


# --------------------------------------------------------------------------- #
# model
# --------------------------------------------------------------------------- #


class Model:
    """sub-period text -> array, with the statement's rules."""

    def __init__(self, spec, count) -> None:
        self.spec = spec
        self.count = count
        self.dtype = numpy.float32 if spec["type"] == "float" else numpy.int32
        self.store: dict = {}

    def tol(self, amount, known):
        mag = numpy.maximum(1.0, numpy.abs(amount.astype(numpy.float64)))
        for a in known:
            mag = mag + numpy.abs(a.astype(numpy.float64))
        return mag

    def set_input(self, period_text, array):
        """Return ('must_raise'|'must_not_raise'|'dont_care', expectation dict)."""
        subs = sub_periods(period_text, self.spec["unit"])
        known = [s for s in subs if s in self.store]
        unknown = [s for s in subs if s not in self.store]
        a64 = array.astype(numpy.float64)
        if self.spec["set_input"] == "dispatch":
            exp = {s: ("exact", array.astype(self.dtype)) for s in unknown}
            exp.update({s: ("exact", self.store[s]) for s in known})
            return "must_not_raise", exp, known, unknown
        total_known = sum((self.store[s].astype(numpy.float64) for s in known), numpy.zeros(self.count))
        remainder = a64 - total_known
        if unknown:
            share = remainder / len(unknown)
            exp = {s: ("share", share) for s in unknown}
            exp.update({s: ("exact", self.store[s]) for s in known})
            return "must_not_raise", exp, known, unknown
        exp = {s: ("exact", self.store[s]) for s in known}
        scale = self.tol(array, [self.store[s] for s in known])
        if self.spec["type"] == "int":
            return ("must_raise" if (remainder != 0).any() else "must_not_raise"), exp, known, unknown
        if (numpy.abs(remainder) > _rel_tol(1e-4, 2 * len(known)) * scale).any():
            return "must_raise", exp, known, unknown
        if (remainder == 0).all() and len(known) == 1:
            return "must_not_raise", exp, known, unknown
        return "dont_care", exp, known, unknown

    def commit(self, observed: dict, unknown):
        for s in unknown:
            if observed.get(s) is not None:
                self.store[s] = observed[s]


# --------------------------------------------------------------------------- #
# run
# --------------------------------------------------------------------------- #


def run(scn) -> Result:
    res = Result()
    world = World(scn["world"])
    H = History()
    env = make_env(scn)
    try:
        with env:
            from ..compile import tile

            situation = scn["situation"]
            doc_ops = list(scn.get("doc_inputs") or [])
            if doc_ops:
                # the inputs the document carries: person k gets the k-th value
                import copy

                situation = copy.deepcopy(situation)
                persons = list(situation["persons"])
                for op in doc_ops:
                    _k, var, per, vals = op["do"]
                    arr = tile(vals, len(persons), world.var_specs[var], world)
                    # (a document parsed from YAML carries a year written without quotes as an int)
                    key = int(per) if (len(per) == 4 and per.isdigit() and len(persons) % 2 == 0) else per
                    for k, pid in enumerate(persons):
                        situation["persons"][pid].setdefault(var, {})[key] = arr[k].item()
                res.count("probe:inputs_given_in_the_situation_document", len(doc_ops))
            sim = build_sim(world, situation, scn["knobs"], ())
            if doc_ops and [str(i) for i in sim.persons.ids] != list(situation["persons"]):
                raise AssertionError("harness: persons of the built simulation are not in document order")
            models = {
                v["name"]: Model(v, sim.populations[v["entity"]].count) for v in scn["world"]["variables"]
            }

            # handles on the variables' holders, obtained before anything is set (the
            # documented way to feed a variable directly): what the simulation holds and
            # what a handle shows are the same thing
            handles = {name: sim.get_holder(name) for name in models}

            queue = doc_ops + list(scn["ops"])
            step = -1
            while queue:
                op = queue.pop(0)
                step += 1
                do = op["do"]
                var = do[1]
                spec = world.var_specs[var]
                m = models[var]
                kind = do[0]
                if kind == "set_input":
                    period_text = do[2]
                    array = tile(do[3], m.count, spec, world)
                    verdict, exp, known, unknown = m.set_input(period_text, array)
                    subs = sub_periods(period_text, spec["unit"])
                    before = _read(sim, env, var, subs) if not op.get("prebuilt") else dict.fromkeys(subs)
                    if spec.get("end") and parse_period(period_text)[1].isoformat() > spec["end"]:
                        # an input for a period that starts after the variable's end date
                        # is ignored (Simulation.set_input); one that starts on or before
                        # it is an input like any other, however far it runs past it
                        out = apply_op(sim, world, do)
                        after = _read(sim, env, var, subs)
                        H.add(op["actor"], kind, do[1:], canon_outcome(out), "ignored: starts after the end date")
                        res.count("steps")
                        res.count("probe:input_after_the_end_date_ignored")
                        if out[0] == "exc" or any(canon(before.get(s_)) != canon(after.get(s_)) for s_ in subs):
                            res.violate("C16.untouched", step, op=do[:3], what="an input starting after the end date was not simply ignored",
                                        outcome=canon_outcome(out))
                        continue
                    if spec.get("end") and len(subs) > 1 and subs[-1] > spec["end"][: len(subs[-1])]:
                        res.count("probe:long_input_runs_past_the_end_date")
                    # the model and the engine must agree on what is known (harness sanity)
                    fault = op.get("io_fault") if (env.fs is not None and len(subs) > 1) else None
                    if fault:
                        env.fs.n["save"] = 0
                        env.fs.fired = []
                        env.fs.faults = {"save": {fault["at"]: {"kind": fault["kind"], "torn": 40}}}
                    if op.get("plain"):
                        res.count("probe:amount_given_as_a_plain_list_of_ints")
                        plain = [int(x) for x in array.tolist()]
                        try:
                            with warnings.catch_warnings():
                                warnings.simplefilter("ignore")
                                out = ("ok", sim.set_input(var, period_text, plain))
                        except RunTooBig:
                            raise
                        except Exception as e:  # noqa: BLE001
                            out = ("exc", e)
                    elif op.get("prebuilt"):
                        out = ("ok", None)  # given in the situation document: the builder has set it
                    else:
                        out = apply_op(sim, world, do, form=form_of(do, step))
                    fired = []
                    if fault:
                        fired = [list(map(str, f)) for f in env.fs.fired]
                        env.fs.faults = {}
                    after = _read(sim, env, var, subs)
                    raised = out[0] == "exc"
                    H.add(op["actor"], kind, do[1:], canon_outcome(out), [[canon(after.get(s)) for s in subs[:40]], fired] if fired else [canon(after.get(s)) for s in subs[:40]])
                    res.count("steps")
                    long = len(subs) > 1
                    if fired and raised and isinstance(out[1], OSError):
                        # C16.failed_write: the input could not be stored completely.  The
                        # statement's guarantees for what was set before still hold, and
                        # what this call did store is what it was to store; then the same
                        # input is given again.
                        res.count(f"fault:{fault['kind']}")
                        res.count("clause:C16.failed_write")
                        fmech = {"rule": spec["set_input"], "type": spec["type"], "unit": spec["unit"], "n_sub": len(subs), "n_known": len(known), "fired": fired}
                        for s_ in known:
                            if canon(before.get(s_)) != canon(after.get(s_)):
                                res.violate("C16.untouched", step, op=do[:3], sub=s_, what="a value set before was changed by an input whose storing failed",
                                            expected=canon(before.get(s_)), got=canon(after.get(s_)), **fmech)
                                break
                        else:
                            scale = m.tol(array, [m.store[s_] for s_ in known])
                            for s_ in unknown:
                                got = after.get(s_)
                                if got is None:
                                    continue
                                want = exp[s_][1]
                                if exp[s_][0] == "exact" or spec["type"] == "int":
                                    ok = (got.astype(numpy.float64) == numpy.asarray(want, dtype=numpy.float64)).all()
                                else:
                                    ok = (numpy.abs(got.astype(numpy.float64) - want) <= _rel_tol(1e-5, len(known)) * scale).all()
                                if not ok:
                                    res.violate("C16.share" if spec["set_input"] == "divide" else "C16.repeat", step, op=do[:3], sub=s_,
                                                what="an input whose storing failed left a wrong value behind", got=canon(got),
                                                int_nondivisible=bool(spec["type"] == "int" and exp[s_][0] == "share" and (want != numpy.floor(want)).any()), **fmech)
                                    break
                        if any(after.get(s_) is not None for s_ in unknown):
                            res.count("probe:failed_write_left_a_partial_spread")
                        m.commit(after, unknown)
                        queue.insert(0, {"actor": op["actor"], "do": do, "retry": True})
                        continue
                    if op.get("retry"):
                        res.count("probe:retry_after_failed_write")
                    if long and known:
                        res.nontrivial = True
                        res.count("probe:long_with_preset")
                    if long and known and unknown and subs.index(known[0]) < subs.index(unknown[-1]):
                        res.count("probe:preset_before_unknown")
                    if any(_loc(sim, var, s) in ("disk", "both") for s in known):
                        res.count("probe:preset_on_disk")
                    mech = {
                        "rolling_years_of_a_year_variable": bool(spec["unit"] == "year" and subs and subs[0].startswith("year:")),
                        "rule": spec["set_input"],
                        "type": spec["type"],
                        "unit": spec["unit"],
                        "n_sub": len(subs),
                        "n_known": len(known),
                        "preset_before_unknown": bool(long and known and unknown and subs.index(known[0]) < subs.index(unknown[-1])),
                        "memory": bool(scn["knobs"].get("memory")),
                    }
                    # C16.refuse ---------------------------------------------------
                    res.count("clause:C16.refuse")
                    if verdict == "must_raise" and not raised:
                        res.violate("C16.refuse", step, op=do[:3], what="contradicting amount accepted", **mech)
                    elif verdict == "must_not_raise" and raised:
                        res.violate("C16.refuse", step, op=do[:3], what="refused although some sub-period was unknown or the amount matches", error=type(out[1]).__name__, **mech)
                    if raised:
                        # a refusal changes nothing
                        for s in subs:
                            if canon(before.get(s)) != canon(after.get(s)):
                                res.violate("C16.untouched", step, op=do[:3], sub=s, what="changed by a refused input", **mech)
                                break
                        continue
                    # C16.untouched --------------------------------------------------
                    res.count("clause:C16.untouched")
                    for s in known:
                        if canon(before.get(s)) != canon(after.get(s)):
                            res.violate("C16.untouched", step, op=do[:3], sub=s, expected=canon(before.get(s)), got=canon(after.get(s)), **mech)
                            break
                    # C16.repeat / C16.share ----------------------------------------
                    if spec["set_input"] == "dispatch":
                        res.count("clause:C16.repeat")
                        for s in unknown:
                            want = exp[s][1]
                            if after.get(s) is None or canon(after[s]) != canon(want):
                                pre = [k for k in known if canon(m.store[k]) == canon(after.get(s))]
                                res.violate(
                                    "C16.repeat", step, op=do[:3], sub=s, expected=canon(want), got=canon(after.get(s)),
                                    observed_equals_preset=pre[:1], **mech,
                                )
                                break
                    else:
                        res.count("clause:C16.share")
                        scale = m.tol(array, [m.store[s] for s in known])
                        first = None
                        for s in unknown:
                            got = after.get(s)
                            if got is None:
                                res.violate("C16.share", step, op=do[:3], sub=s, what="unknown sub-period left unset", **mech)
                                break
                            if first is None:
                                first = got
                            elif canon(first) != canon(got):
                                res.violate("C16.share", step, op=do[:3], sub=s, what="shares differ between sub-periods", **mech)
                                break
                            want = exp[s][1]
                            if spec["type"] == "int":
                                ok = (got.astype(numpy.float64) == want).all()
                            else:
                                ok = (numpy.abs(got.astype(numpy.float64) - want) <= _rel_tol(1e-5, len(known)) * scale).all()
                            if not ok:
                                res.violate("C16.share", step, op=do[:3], sub=s, expected=want.tolist(), got=canon(got),
                                            int_nondivisible=bool(spec["type"] == "int" and (want != numpy.floor(want)).any()), **mech)
                                break
                    m.commit(after, unknown)
                    res.count("clause:C16.handle")
                    with observing(env):
                        for s_ in subs:
                            try:
                                seen = handles[var].get_array(_P(s_))
                            except Exception as e:  # noqa: BLE001
                                seen = numpy.array([f"unreadable: {type(e).__name__}"])
                            if canon(seen) != canon(after.get(s_)):
                                res.violate("C16.untouched", step, op=do[:3], sub=s_, what="a handle on the variable's holder obtained earlier does not show what the simulation holds",
                                            simulation=canon(after.get(s_)), handle=canon(seen), **mech)
                                break
                    # C16.conserve ---------------------------------------------------
                    if spec["set_input"] == "divide" and not res.violations:
                        res.count("clause:C16.conserve")
                        cout = apply_op(sim, world, ["calculate_add", var, period_text])
                        _adopt_memoised(sim, env, var, m)
                        if cout[0] != "ok":
                            res.violate("C16.conserve", step, op=do[:3], what="calculate_add raised", error=type(cout[1]).__name__, **mech)
                        else:
                            total = cout[1].astype(numpy.float64)
                            a64 = array.astype(numpy.float64)
                            mag = numpy.maximum(1.0, numpy.abs(a64))
                            for s in subs:
                                mag = mag + numpy.abs(m.store[s].astype(numpy.float64))
                            if spec["type"] == "int":
                                ok = (total == a64).all()
                            else:
                                ok = (numpy.abs(total - a64) <= _rel_tol(1e-4, 2 * len(subs)) * mag).all()
                            if not ok:
                                res.violate("C16.conserve", step, op=do[:3], expected=a64.tolist(), got=total.tolist(), **mech)
                elif kind == "calculate_add":
                    subs = sub_periods(do[2], spec["unit"])
                    out = apply_op(sim, world, do)
                    H.add(op["actor"], kind, do[1:], canon_outcome(out))
                    res.count("steps")
                    # memoisation: unknown sub-periods now hold the default and count as set
                    if out[0] == "ok":
                        after = _read(sim, env, var, subs)
                        exp_total = numpy.zeros(m.count)
                        for s in subs:
                            if s not in m.store:
                                if after.get(s) is not None:
                                    m.store[s] = after[s]
                            exp_total = exp_total + m.store[s].astype(numpy.float64) if s in m.store else exp_total
                        _adopt_memoised(sim, env, var, m)
                elif kind == "delete_arrays":
                    out = apply_op(sim, world, do, form=form_of(do, step))
                    gone = list(m.store) if do[2] is None else [s for s in m.store if _within(s, do[2])]
                    for s in gone:
                        del m.store[s]
                    H.add(op["actor"], kind, do[1:], canon_outcome(out), sorted(gone))
                    res.count("steps")
                    res.count("probe:input_withdrawn")
                    res.count("clause:C16.untouched")
                    with observing(env):
                        held = {str(p_): handles[var].get_array(p_) for p_ in handles[var].get_known_periods()}
                    if out[0] != "ok" or set(held) != set(m.store) or any(canon(held[s]) != canon(m.store[s]) for s in held):
                        res.violate("C16.untouched", step, op=do, what="withdrawing inputs did not remove exactly the values set for the periods within the one named",
                                    outcome=canon_outcome(out), still_held=sorted(set(held) - set(m.store))[:6], lost=sorted(set(m.store) - set(held))[:6],
                                    rule=spec["set_input"], type=spec["type"], unit=spec["unit"])
                elif kind == "get_array":
                    out = apply_op(sim, world, do)
                    H.add(op["actor"], kind, do[1:], canon_outcome(out))
                    res.count("steps")
                    res.count("clause:C16.read")
                    want = m.store.get(do[2])
                    if out[0] != "ok" or canon(out[1]) != canon(want):
                        res.violate("C16.untouched", step, op=do, what="a sub-period does not read what the model holds", expected=canon(want), got=canon_outcome(out))
                res.mark("states", digest(sorted([list(k), v] for k, v in locations(sim).items())))
                if res.violations:
                    break
            if env.mem is not None:
                res.count("mem_reads", env.mem.reads)
            sim = None
        res.mark("interleavings", digest([(o["actor"], o["do"][0], o["do"][2]) for o in scn["ops"]]))
        res.count("executions")
        res.events = H.events
        res.digest = H.digest()
        return res
    except RunTooBig:
        res.discarded = "too big"
        return res
    finally:
        world.close()
        seams.Env.uninstall()


def _rel_tol(base: float, n_terms: int) -> float:
    """Relative tolerance for a float32 quantity obtained through `n_terms` successive float32
    additions or subtractions: each may round by half an ulp of the running magnitude
    (2**-24 ~ 6e-8), and when the same small value is taken n times from about the same large
    one the roundings all go the same way - so the bound grows with n (one part in 10**5 for
    a year of days).  Never tighter than `base`; a missing or doubled sub-period is still two
    orders of magnitude away."""
    return max(base, (n_terms + 2) * 1.2e-7)


def _within(inner: str, outer: str) -> bool:
    """Does the period `inner` lie within `outer` (own calendar)?"""
    ui, si, ni = parse_period(inner)
    uo, so, no = parse_period(outer)
    return so <= si and end_exclusive(ui, si, ni) <= end_exclusive(uo, so, no)


def _adopt_memoised(sim, env, var, m):
    """A sum memoises the default for the pieces it found unknown.  They are the model's
    sub-periods - except for a year-defined variable summed over a period that does not
    start in January, where the engine sums (and memoises) calendar years instead (D16)."""
    with observing(env):
        holder = sim.get_holder(var)
        for p_ in holder.get_known_periods():
            if str(p_) not in m.store:
                m.store[str(p_)] = holder.get_array(p_)


def _read(sim, env, var, subs):
    out = {}
    with observing(env):
        holder = sim.get_holder(var)
        for s in subs:
            try:
                out[s] = holder.get_array(_P(s))
            except Exception as e:  # noqa: BLE001  (e.g. a torn spill file that got indexed)
                out[s] = numpy.array([f"unreadable: {type(e).__name__}"])
    return out


_PCACHE: dict = {}


def _P(text):
    from openfisca_core import periods

    p = _PCACHE.get(text)
    if p is None:
        p = _PCACHE[text] = periods.period(text)
    return p


def _loc(sim, var, s):
    return locations(sim).get((var, str(_P(s))))


extra_shrinkers = ()
