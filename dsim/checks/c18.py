"""C18 — a failed calculation leaves the simulation consistent and reusable.

DESIGN 4.8.  Per scenario: a fault-free pass numbers the fault sites of every
request; then every single-fault placement (site x applicable kind, within a
budget that always covers every site) is run on a fresh copy of the scenario;
`multi` scenarios carry 2-3 failing requests with retries.
"""

from __future__ import annotations

import copy
import sys

from .. import seams, shrink
from ..compile import World
from ..ctx import CTX, InjectedFault, RunTooBig, py_depth
from ..history import History, canon, canon_outcome, digest, same
from ..rng import Streams, chance, pick, weighted
from ..sim import apply_op, form_of, build_sim, locations, preload, readable, stack_state, watch_calls, watch_spirals
from ..world import gen_chain_world, gen_inputs, gen_request, gen_situation, gen_world, wide_knob
from . import Result
from .c17 import trace_nodes_match

from openfisca_core import errors as of_errors
from openfisca_core import periods
from openfisca_core.indexed_enums import EnumEncodingError, EnumMemberNotFoundError
from openfisca_core.populations import IncompatibleOptionsError, InvalidOptionError

PROPERTY = "C18"
LEVEL = "fault_enumeration"
HASH_FREE = False
RULE = (
    "scenario = generated rule system (acyclic / spiral / cyclic) + situation + inputs + 3-5 requests, "
    "tracer simple or full, with or without a memory configuration; a fault-free pass numbers the fault "
    "sites of each request (formula entry, every variable read, every parameter read, formula return, "
    "every spill write/read); every site gets at least one fault and all (site x kind) placements when "
    "within the per-scenario budget, plus one placement per site whose failure is caught by the formula "
    "1, 2 or all variable reads further up, which then repeats its read and carries on; each placement "
    "is one execution of the whole scenario with a heal retry. An execution is non-trivial when its fault fired; distinct = distinct execution digests."
)
COMPONENTS = {
    "real": [
        "Simulation.calculate/_calculate/calculate_add/calculate_divide",
        "Holder, InMemoryStorage, OnDiskStorage",
        "SimpleTracer, FullTracer",
        "SimulationBuilder.build_from_entities",
        "TaxBenefitSystem, Variable, parameters",
        "numpy .npy encoder/decoder",
    ],
    "stub": ["psutil (SimMem)", "file system (SimFS: numpy.save/load, os, shutil, tempfile)", "formula bodies (generated)"],
}

RAISE_KINDS = ("raise", "raise_after")
EXPECTED = {
    "bad_var": (of_errors.VariableNotFoundError,),
    "bad_entity": (ValueError,),
    "bad_period": (ValueError,),
    # the formula runs for the long period before the value is refused at store time:
    # in a cyclic world it may meet the true cycle first
    "bad_period_long": (ValueError, of_errors.CycleError),
    "add_divide": (IncompatibleOptionsError,),
    "bad_option": (InvalidOptionError,),
    "undef_param": (of_errors.ParameterNotFoundError,),
    "bad_len": (ValueError, EnumEncodingError, EnumMemberNotFoundError),
    "bad_dtype": (ValueError,),
    "bad_enum": (EnumEncodingError, EnumMemberNotFoundError, ValueError),
    "bad_enum_index": (EnumEncodingError, EnumMemberNotFoundError, ValueError),
    # F15: the interpreter's stack is exhausted somewhere below the request
    "stack_exhausted": (RecursionError,),
    "enospc": (OSError,),
    "enospc_torn": (OSError,),
    "eio": (OSError,),
}
ETERNITY = str(periods.period("ETERNITY"))
# periods the engine refuses for a variable of that definition period (a day
# variable is only refused a size other than one - which belongs to C03, n/a)
BAD_PERIOD = {"month": "2018", "year": "2018-01", "day": "day:2018-01-01:2", "week": "2018", "weekday": "weekday:2018-W01-1:2"}


# --------------------------------------------------------------------------- #
# generation
# --------------------------------------------------------------------------- #


def generate(seed: int, tier: str) -> dict:
    st = Streams(seed)
    wr = st["world"]
    profile = weighted(wr, [("acyclic", 5), ("spiral", 2.5), ("cyclic", 2), ("chain", 1)])
    if profile == "chain":
        # the textbook quasi-circular shape (C02's chain worlds): failures strike while
        # spiral-tainted values sit in the cache
        world = gen_chain_world(wr)
        profile = "spiral"
    else:
        world = gen_world(
            wr,
            discipline=profile,
            n_vars=wr.randint(3, 8 if tier == "quick" else 12),
            max_depth=2,
            wide=wide_knob(wr, tier, 0.12, cap=300),
        )
    ir = st["inputs"]
    situation = gen_situation(ir, world, max_persons=4)
    inputs = gen_inputs(ir, world, p=0.4)
    kr = st["knobs"]
    knobs = {"max_spiral_loops": kr.randint(1, 3), "trace": chance(kr, 0.5)}
    env = {}
    if chance(kr, 0.4):
        names = [v["name"] for v in world["variables"]]
        knobs["memory"] = {
            "max": pick(kr, [0.0, 0.5, 1.0]),
            "priority": [n for n in names if chance(kr, 0.2)],
            "drop": [],
        }
        env["mem"] = pick(kr, ["high", "high", "flap", "edge", "low"])
        env["mem_seed"] = kr.randrange(1 << 30)
    orr = st["ops"]
    n_ops = orr.randint(3, 5)
    ops = [{"do": gen_request(orr, world)} for _ in range(n_ops)]
    for key in ("self_cycle", "two_cycle"):
        # (a world with a known circle is asked for it, most of the time)
        cyc = world.get(key)
        if cyc and chance(orr, 0.7):
            unit = next(v["unit"] for v in world["variables"] if v["name"] == cyc[0])
            per = {"month": f"2018-{(cyc[2] + 1) if key == 'two_cycle' else pick(orr, [2, 3, 4]):02d}", "year": "2019", "day": "2018-03-01"}.get(unit)
            if per:
                ops[orr.randrange(len(ops))] = {"do": ["calculate", cyc[0], per]}
    fr = st["faults"]
    # stack: the interpreter's stack runs out (RecursionError) at every depth below the
    # request, one Python frame at a time - what a deep dependency chain meets in production
    mode = weighted(fr, [("enumerate", 6), ("multi", 3), ("stack", 1.5)])
    if mode == "multi":
        n_f = fr.randint(2, 3)
        for k in sorted(fr.sample(range(n_ops), min(n_f, n_ops))):
            ops[k]["fault"] = {"frac": round(fr.random(), 4), "kind_i": fr.randrange(64)}
            if chance(fr, 0.3):
                ops[k]["fault"]["catch_up"] = pick(fr, [1, 1, 2, 9])
        # retries: the same request while the fault persists, then once it is removed
        out = []
        for op in ops:
            out.append(op)
            if "fault" in op and chance(fr, 0.5):
                out.append({"do": op["do"], "fault": dict(op["fault"]), "retry": True})
            if "fault" in op:
                out.append({"do": op["do"], "heal": True})
        ops = out
    return {
        "format": 1,
        "property": PROPERTY,
        "profile": profile,
        "seed": seed,
        "world": world,
        "situation": situation,
        "knobs": knobs,
        "inputs": inputs,
        "env": env,
        "mode": mode,
        "budget": 80 if tier == "quick" else 400,
        "ops": ops,
    }


# --------------------------------------------------------------------------- #
# fault planning
# --------------------------------------------------------------------------- #


def applicable(world: World, kind_rec) -> list:
    """Fault kinds that apply at a site, with their parameters."""
    what = kind_rec[0]
    specs = world.var_specs
    if what == "enter":
        return [{"kind": "raise"}]
    if what == "rd":
        _, ent, var = kind_rec
        out = [{"kind": "raise_after"}, {"kind": "bad_var"}, {"kind": "add_divide"}, {"kind": "bad_option"}]
        spec = specs.get(var)
        if spec and spec["unit"] in BAD_PERIOD:
            out.append({"kind": "bad_period", "period": BAD_PERIOD[spec["unit"]]})
        if spec and spec["unit"] == "day":
            out.append({"kind": "bad_period_long", "period": "2018-01"})
        other = [n for n, s in specs.items() if s["entity"] != ent]
        if other:
            out.append({"kind": "bad_entity", "var": other[0]})
        return out
    if what == "prm":
        return [{"kind": "undef_param"}]
    if what == "leave":
        spec = specs[kind_rec[1]]
        out = [{"kind": "raise"}, {"kind": "bad_len"}]
        if spec["type"] in ("float", "int", "date"):
            out.append({"kind": "bad_dtype"})
        if spec["type"] == "enum":
            out.append({"kind": "bad_enum"})
            out.append({"kind": "bad_enum_index"})
        return out
    raise ValueError(kind_rec)


def make_env(scn) -> seams.Env:
    mem = (scn.get("knobs") or {}).get("memory")
    if not mem:
        return seams.Env()
    import random

    env = scn.get("env") or {}
    sched = seams.mem_schedule(
        env.get("mem", "high"), mem["max"] * 100.0, random.Random(env.get("mem_seed", 0))
    )
    return seams.Env(mem=seams.SimMem(sched), fs=seams.SimFS(listdir_seed=env.get("listdir_seed", 0)))


# --------------------------------------------------------------------------- #
# one execution of a scenario under a plan
# --------------------------------------------------------------------------- #


def with_stack_limit(margin, fn):
    """Run fn() with at most `margin` more Python frames than there are now (None: no
    limit, but the depth of this point is recorded for the formulas' depth log).
    A RecursionError that escapes is the request's outcome."""
    base = py_depth()
    old = sys.getrecursionlimit()
    if margin is not None:
        sys.setrecursionlimit(base + margin)
    try:
        return fn(base)
    except RecursionError as e:
        return ("exc", e)
    finally:
        sys.setrecursionlimit(old)


def _pstr(p) -> str:
    return str(periods.period(p))


def has_formula(world: World, var: str, period_str: str) -> bool:
    v = world.tbs.get_variable(var)
    try:
        return v.get_formula(periods.period(period_str)) is not None
    except Exception:  # noqa: BLE001  (eternity: formula lookup at ETERNITY itself fails)
        return bool(v.formulas)


def execute(scn, world: World, plans: dict, res: Result, *, auto_heal: bool, record_sites=None):
    """Run the scenario once.  plans: op_index -> {"site": {n: fault}} | {"io": {...}}.

    Returns the History.  Violations are appended to `res`.
    """
    profile = scn["profile"]
    H = History()
    env = make_env(scn)
    with env:
        sim = build_sim(world, scn["situation"], scn["knobs"], scn["inputs"])
        twin = build_sim(world, scn["situation"], scn["knobs"], scn["inputs"])
        spirals = watch_spirals(sim)
        tspirals = watch_spirals(twin)
        traced = bool(scn["knobs"].get("trace"))
        # (stack exhaustion can strike inside the harness's own call logger, between its
        # note of a call and the engine's: its tree is not an oracle in those scenarios)
        stack_mode = scn["mode"] == "stack" or scn.get("stack_mode")
        calls = watch_calls(sim) if traced and not stack_mode else None
        ref = None
        replaced: dict = {}
        queue = [(k, op, plans.get(k)) for k, op in enumerate(scn["ops"])]
        qi = 0
        while qi < len(queue):
            k, op, plan = queue[qi]
            qi += 1
            do = op["do"]
            if op.get("input_first"):
                var, per, values = op["input_first"]
                for target in (sim, twin):
                    apply_op(target, world, ["set_input", var, per, values])
                res.count("probe:heal_by_input")
                H.add("R", "set_input", [var, per, values])
            if op.get("rule_first"):
                # "the cause is removed" the way a developer removes it: the rule whose
                # formula failed is replaced in the running system by a corrected one
                # (recognisably another: + 1000), and the request made again
                name = op["rule_first"]
                replaced.setdefault(name, type(world.tbs.get_variable(name)))
                world.tbs.replace_variable(world.compile_variable(_corrected(world.var_specs[name])))
                ref = None  # the fault-free reference is rebuilt under the new rule when next needed
                res.count("probe:heal_by_replacing_the_rule")
                H.add("R", "replace_variable", [name])
            before = readable(sim, env)
            roots_before = len(calls) if calls is not None else 0
            if env.fs is not None:
                env.fs.n["save"] = env.fs.n["load"] = 0
                env.fs.fired = []
                env.fs.faults = (plan or {}).get("io", {})
            if stack_mode:
                def _do(base, do=do, plan=plan):
                    CTX.pending_base = base
                    return apply_op(sim, world, do, (plan or {}).get("site"), form=form_of(do, k))

                out = with_stack_limit((plan or {}).get("stack"), _do)
                depth_needed = max(0, CTX.max_depth - CTX.base_depth) if CTX.base_depth is not None else 0
            else:
                out = apply_op(sim, world, do, (plan or {}).get("site"), form=form_of(do, k))
            fired = list(CTX.fired)
            if stack_mode and out[0] == "exc" and isinstance(out[1], RecursionError) and (plan or {}).get("stack"):
                fired.append(("stack", "stack_exhausted"))
            caught = list(CTX.caught)
            if env.fs is not None:
                fired += [(f"{f[0]}{f[1]}", f[2]) for f in env.fs.fired]
                n_io = dict(env.fs.n)
                env.fs.faults = {}
            else:
                n_io = {"save": 0, "load": 0}
            kinds = list(CTX.kinds)
            frames_now = list(CTX.frames)
            incomplete = {_key(world, vp) for vp in CTX.incomplete()}
            completed = {_key(world, vp) for vp in CTX.completed()}
            if record_sites is not None:
                record_sites[k] = {"kinds": kinds, "save": n_io["save"], "load": n_io["load"]}
                if stack_mode:
                    record_sites[k]["depth"] = depth_needed
            after = readable(sim, env)
            st = stack_state(sim)
            failed = out[0] == "exc"
            step = len(H.events)
            H.add("R", do[0], do[1:], canon_outcome(out), [sorted(map(list, after)), st, [list(map(str, f)) for f in fired],
                                                                 [[c[0], type(c[1]).__name__] for c in caught]])
            res.count("steps")
            for f in fired:
                res.count(f"fault:{f[1]}")
            if caught:
                res.count("fault:caught_by_a_formula")
                if not failed:
                    res.count("probe:request_succeeds_after_a_caught_failure")
            res.mark("states", digest([sorted([list(k), v] for k, v in locations(sim).items()), st["stack"], st["invalidated"]]))
            if failed and isinstance(out[1], of_errors.CycleError):
                res.count("fault:true_cycle")

            # C18.stack ---------------------------------------------------------
            res.count("clause:C18.stack")
            if st["stack"] or st["cursor"] is not None or st["invalidated"]:
                res.violate("C18.stack", step, op=do, state=st, fired=fired)

            # C18.raised, for the failure nobody injected: a rule that reads itself for the
            # period it is computed for (cyclic worlds) - the circular-definition error
            # must reach the caller, whatever form the request was made in
            sc = world.spec.get("self_cycle")
            if sc and not fired and not caught and do[0] == "calculate" and do[1] == sc[0] and (do[1], _pstr(do[2])) not in before:
                try:
                    active = world.tbs.get_variable(sc[0]).get_formula(periods.period(do[2]))
                except Exception:  # noqa: BLE001
                    active = None
                expected_name = "formula" if sc[1] == "0001-01-01" else "formula_" + sc[1].replace("-", "_")
                if active is not None and active.__name__ == expected_name and world.var_specs[sc[0]]["unit"] != "eternity":
                    res.count("clause:C18.raised")
                    res.count("probe:self_reading_rule_requested")
                    if not (failed and isinstance(out[1], of_errors.CycleError)):
                        res.violate("C18.raised", step, op=do, fired=[], got=type(out[1]).__name__ if failed else "no exception",
                                    what="true_cycle: " + (type(out[1]).__name__ if failed else "no exception"))

            tc = world.spec.get("two_cycle")
            if tc and not fired and not caught and do[0] == "calculate" and do[1] == tc[0] and scn["knobs"].get("max_spiral_loops", 1) >= 2:
                # the circle over two periods: month m + 1 needs month m, which needs month
                # m + 1 again - refused as circular once the budget allows the second lap
                p_req = periods.period(do[2])
                year, month = p_req.start.year, p_req.start.month
                held = {(tc[0], f"{year:04d}-{mm:02d}") for mm in (tc[2], tc[2] + 1)} & set(before)
                try:
                    names = {world.tbs.get_variable(tc[0]).get_formula(periods.period(f"{year:04d}-{mm:02d}")).__name__ for mm in (tc[2], tc[2] + 1)}
                except Exception:  # noqa: BLE001
                    names = set()
                expected_name = "formula" if tc[1] == "0001-01-01" else "formula_" + tc[1].replace("-", "_")
                if month == tc[2] + 1 and not held and names == {expected_name} and not world.var_specs[tc[0]].get("end"):
                    res.count("clause:C18.raised")
                    res.count("probe:circle_over_two_periods_requested")
                    if not (failed and isinstance(out[1], of_errors.CycleError)):
                        res.violate("C18.raised", step, op=do, fired=[], got=type(out[1]).__name__ if failed else "no exception",
                                    what="two_period_cycle: " + (type(out[1]).__name__ if failed else "no exception"))

            # C18.raised --------------------------------------------------------
            if fired:
                res.count("clause:C18.raised")
                kind = fired[0][1]
                # the caller the error must reach: the formula that handles it, else us
                reached = caught[0][1] if caught else (out[1] if failed else None)
                if reached is None:
                    res.violate("C18.raised", step, op=do, fired=fired, got="no exception", what=f"{kind}: no exception")
                elif kind in RAISE_KINDS:
                    if not (isinstance(reached, InjectedFault) and reached.site == fired[0][0]):
                        res.violate("C18.raised", step, op=do, fired=fired, got=type(reached).__name__, what=f"{kind}: {type(reached).__name__}")
                elif not isinstance(reached, EXPECTED[kind]):
                    res.violate("C18.raised", step, op=do, fired=fired, got=type(reached).__name__, what=f"{kind}: {type(reached).__name__}")

            # C18.nopartial -----------------------------------------------------
            if failed or caught:
                res.count("clause:C18.nopartial")
                for key in sorted(incomplete - completed):
                    if key in after and key not in before:
                        res.violate("C18.nopartial", step, op=do, entry=list(key), fired=fired)

            # C18.completed -----------------------------------------------------
            new = [key for key in after if key not in before]
            if new:
                res.count("clause:C18.completed", len(new))
            for key in new:
                if key not in completed and has_formula(world, *key_for_lookup(world, key, do)):
                    if key in incomplete:
                        continue  # already reported by nopartial
                    res.violate("C18.completed", step, op=do, entry=list(key), why="no completed computation")
                elif profile == "acyclic" and failed and not isinstance(after[key], BaseException):
                    spec = world.var_specs[key[0]]
                    if spec["unit"] == "eternity" and spec["formulas"]:
                        continue
                    if ref is None:
                        ref = build_sim(world, scn["situation"], scn["knobs"], scn["inputs"])
                    pk = "2018-01" if spec["unit"] == "eternity" else key[1]
                    rout = apply_op(ref, world, ["calculate", key[0], pk])
                    if rout[0] != "ok" or not same(rout[1], after[key]):
                        res.violate(
                            "C18.completed",
                            step,
                            op=do,
                            entry=list(key),
                            why="value differs from the fault-free computation",
                            expected=canon_outcome(rout),
                            got=canon(after[key]),
                        )

            # C18.trace ---------------------------------------------------------
            # with tracing on, the trace of this request - failed, caught or not -
            # is one new tree, node for node the harness's own call tree
            if calls is not None:
                res.count("clause:C18.trace")
                trees = sim.tracer.trees
                problems = []
                if len(trees) != len(calls):
                    problems.append({"roots": [len(trees), len(calls)]})
                else:
                    for i in range(roots_before, len(calls)):
                        trace_nodes_match(trees[i], calls[i], [i], problems)
                if problems:
                    res.violate("C18.trace", step, op=do, problems=problems[:3], fired=fired, caught=[[c[0], type(c[1]).__name__] for c in caught])

            # C18.later / C18.heal ---------------------------------------------
            if not failed or not fired:
                # a request that did not fail by injection: the twin makes it too
                # (a naturally failing request - true cycle - is a failed request:
                #  the twin "never made" it)
                if not failed:
                    tout = apply_op(twin, world, do)
                    comparable = profile == "acyclic" or (profile == "cyclic" and not spirals and not tspirals)
                    clause = "C18.heal" if op.get("heal") else "C18.later"
                    if caught and not comparable:
                        # the first, failed attempt left completed values behind: the
                        # repeated read meets another cache than a first read would,
                        # and where the spiral heuristic cuts depends on it
                        res.count("probe:caught_in_a_spiral_world_values_not_compared")
                    elif comparable:
                        res.count(f"clause:{clause}")
                        if canon_outcome(tout) != canon_outcome(out):
                            res.violate(clause, step, op=do, expected=canon_outcome(tout), got=canon_outcome(out), oracle="twin")
                    else:
                        # spiral worlds: equal to a fresh simulation given the readable values
                        res.count(f"clause:{clause}.preloaded")
                        fresh = build_sim(world, scn["situation"], scn["knobs"], ())
                        preload(fresh, before)
                        fout = apply_op(fresh, world, do)
                        if canon_outcome(fout) != canon_outcome(out):
                            res.violate(clause, step, op=do, expected=canon_outcome(fout), got=canon_outcome(out), oracle="preloaded")
            if failed and fired and auto_heal and not op.get("heal"):
                heal = {"do": do, "heal": True}
                # Half of the retries first change an input the failed request had read
                # ("the cause is removed" the way a user removes it: by supplying the
                # missing input) - on the simulation and on its twin alike.  Only inputs
                # whose every reader failed to complete qualify: a completed value that
                # was computed from the old input legitimately stays what it is.
                cands = _guard_inputs(world, frames_now, before, after)
                turn = fired[0][0] if isinstance(fired[0][0], int) else len(kinds)
                culprit = _culprit(world, frames_now) if isinstance(fired[0][0], int) else None
                if fired[0][0] == "stack":
                    cands = []  # the cause is the stack limit; lifting it is the heal
                if culprit and any(k[0] == culprit for k in after):
                    # something computed under the old rule is kept (by an earlier request
                    # - possibly one that failed on its own, which the twin never made)
                    culprit = None
                if cands and turn % 2 == 0:
                    var, per = cands[0]
                    heal["input_first"] = [var, per, _new_value(world.var_specs[var])]
                elif culprit and turn % 3 == 0:
                    heal["rule_first"] = culprit
                queue.insert(qi, (k, heal, None))
            if failed and op.get("heal") and profile == "acyclic":
                # the cause was removed and the request still fails: compare with the twin
                tout = apply_op(twin, world, do)
                res.count("clause:C18.heal")
                if canon_outcome(tout) != canon_outcome(out):
                    res.violate("C18.heal", step, op=do, expected=canon_outcome(tout), got=canon_outcome(out), oracle="twin")
        if traced:
            try:
                sim.tracer.get_serialized_flat_trace()
                sim.tracer.computation_log.lines()
            except Exception as e:  # noqa: BLE001
                res.violate("C18.trace", len(H.events), problems=[{"serialize": f"{type(e).__name__}: {e}"[:200]}])
        if env.mem is not None:
            res.count("mem_reads", env.mem.reads)
        if env.fs is not None:
            res.count("fs_saves", env.fs.n["save"])
            if env.fs.n["save"]:
                res.count("probe:disk_put")
        if spirals:
            res.count("probe:spiral_raised")
        if spirals and any(k.startswith("fault:") for k in res.stats):
            res.count("probe:fault_in_a_run_with_a_spiral")
        # the world is shared by every execution of the scenario: put the rules back
        for name, cls in replaced.items():
            world.tbs.replace_variable(cls)
    return H


def _guard_inputs(world, frames, before, after):
    """(variable, period) of inputs-by-default the failed request read, all of whose
    readers did not complete - in this request, and in any earlier one: the default
    must have been cached by this very request (not readable before it), otherwise a
    value completed earlier may have been computed from it."""
    readers: dict = {}
    # a completed ADD / DIVIDE read consumed sub-periods (or an enclosing period) of
    # the variable: keep clear of that variable altogether
    summed = {rec[0] for f in frames if f.done for rec in f.reads if rec[2] is not None}
    for f in frames:
        for rec in f.reads:
            var, period, opt, _val, raised = rec[:5]
            spec = world.var_specs.get(var)
            if spec is None or opt is not None or raised or var in summed or spec["unit"] in ("eternity", "week", "weekday"):
                continue
            if spec.get("set_input") or spec.get("end") or spec["type"] == "enum":
                continue
            key = (var, str(period))
            if not has_formula(world, var, key[1]) and key in after and key not in before:
                readers.setdefault(key, []).append(f.done)
    return sorted(k for k, done in readers.items() if not any(done))


def _culprit(world, frames):
    """The variable whose formula was running when the request failed - provided none of
    its computations completed in this request (a value completed under the old rule
    legitimately stays, and the twin would compute it under the new one).  The caller
    also requires that the simulation holds no value of it at all."""
    open_ = [f for f in frames if not f.done]
    if not open_:
        return None
    name = open_[-1].var
    spec = world.var_specs[name]
    if spec["type"] not in ("float", "int") or spec["unit"] == "eternity" or not spec.get("formulas"):
        return None
    if any(f.var == name and f.done for f in frames):
        return None
    return name


def _corrected(spec):
    out = copy.deepcopy(spec)
    out["formulas"] = {d: ["b", "+", e, ["c", 1000.0]] for d, e in spec["formulas"].items()}
    return out


def _new_value(spec):
    return {"float": [7.5, 2.0], "int": [7, 2], "bool": [True, False], "date": ["2011-11-11"], "str": ["zz"]}[spec["type"]]


def _key(world, vp):
    """Storage key of a formula execution: eternal variables are computed for the
    period that was asked for but stored under ETERNITY."""
    var, period = vp
    if world.var_specs[var]["unit"] == "eternity":
        return (var, ETERNITY)
    return (var, str(period))


def key_for_lookup(world: World, key, do):
    """(variable, period text) to ask `has_formula`; eternal values are stored under
    ETERNITY but were computed for the period of the request."""
    var, p = key
    if world.var_specs[var]["unit"] == "eternity":
        return var, "2018-01"
    return var, p


# --------------------------------------------------------------------------- #
# run
# --------------------------------------------------------------------------- #


def placements(scn, world: World, sites: dict):
    """All single-fault placements, and the subset to run within the budget."""
    all_p = []
    per_site = []
    for k in sorted(sites):
        if k >= 4:
            break  # <= 4 requests enumerated per scenario
        rec = sites[k]
        for s, kind_rec in enumerate(rec["kinds"][:60], start=1):
            ks = applicable(world, kind_rec)
            group = [(k, "site", s, f) for f in ks]
            # F1c: the same failure, handled by a formula further up (one kind per
            # site, rotating; how far up rotates too)
            f = ks[s % len(ks)]
            group.append((k, "site", s, {**f, "catch_up": (1, 2, 9)[(s // len(ks)) % 3]}))
            per_site.append(group)
        for n in range(1, rec["save"] + 1):
            per_site.append([(k, "io", ("save", n), {"kind": "enospc"}), (k, "io", ("save", n), {"kind": "enospc_torn", "torn": 40})])
        for n in range(1, rec["load"] + 1):
            per_site.append([(k, "io", ("load", n), {"kind": "eio"})])
    for group in per_site:
        all_p.extend(group)
    budget = scn.get("budget", 120)
    if len(all_p) <= budget:
        return all_p, True, len(per_site)
    # every site at least once (kind rotates), then fill up
    chosen = []
    for i, group in enumerate(per_site):
        chosen.append(group[i % len(group)])
    if len(chosen) > budget:
        # too many sites even for one fault each: keep an evenly spaced subset
        stepf = len(chosen) / budget
        chosen = [chosen[int(j * stepf)] for j in range(budget)]
        return chosen, False, len(per_site)
    rest = [p for p in all_p if p not in chosen]
    import random

    random.Random(scn.get("seed", 0)).shuffle(rest)
    chosen += rest[: budget - len(chosen)]
    return chosen, False, len(per_site)


STACK_FLOOR = 6  # fewer frames than this do not even reach Simulation.calculate
STACK_SLACK = 28  # frames the engine may need below the deepest formula entry


def stack_placements(scn, sites: dict):
    """Every stack limit from STACK_FLOOR frames below the request to past what its
    deepest formula needs, one frame at a time (every alignment of the limit with the
    engine's own frames), for up to three requests."""
    per_req = []
    for k in sorted(sites):
        if len(per_req) >= 3:
            break
        d = sites[k].get("depth", 0)
        if not sites[k]["kinds"]:
            continue
        per_req.append([(k, "stack", m, {"kind": "stack_exhausted"}) for m in range(STACK_FLOOR, d + STACK_SLACK)])
    all_p = [p for g in per_req for p in g]
    budget = scn.get("budget", 120) * 2  # (these executions are cheap: most fail early)
    if len(all_p) <= budget:
        return all_p, True, len(all_p)
    import random

    rng = random.Random(scn.get("seed", 0))
    chosen = []
    share = max(14, budget // max(1, len(per_req)))
    for g in per_req:
        if len(g) <= share:
            chosen += g
        else:
            # two contiguous windows: consecutive limits cover every alignment
            half = share // 2
            for _ in range(2):
                a = rng.randrange(0, len(g) - half + 1)
                chosen += [p for p in g[a : a + half] if p not in chosen]
    return chosen, False, len(all_p)


def plan_of(placement):
    k, where, at, fault = placement
    if where == "site":
        return {k: {"site": {at: fault}}}
    if where == "stack":
        return {k: {"stack": at}}
    io, n = at
    return {k: {"io": {io: {n: fault}}}}


def run(scn) -> Result:
    res = Result()
    world = World(scn["world"])
    try:
        return _run(scn, world, res)
    except RunTooBig:
        res.discarded = "too big"
        res.violations = []
        return res
    finally:
        world.close()
        seams.Env.uninstall()


def _run(scn, world, res):
    mode = scn["mode"]
    digests = []
    if mode == "single":
        # a replay file: one explicit placement
        plans = {}
        for k, op in enumerate(scn["ops"]):
            if "placement" in op:
                w, at, fault = op["placement"]
                at = tuple(at) if isinstance(at, list) else at
                plans.update(plan_of((k, w, at, fault)))
        if scn.get("stack_mode"):
            # Where the stack runs out depends on which code paths are warm (a memo that
            # misses goes deeper than one that hits): as in the exploring run, a fault-free
            # pass of the scenario comes first.
            execute(scn, world, {}, Result(), auto_heal=False)
        H = execute(scn, world, plans, res, auto_heal=True)
        res.events = H.events
        res.nontrivial = any(k.startswith("fault:") for k in res.stats)
        res.count("executions")
        res.digest = H.digest()
        return res

    sites: dict = {}
    base = Result()
    H0 = execute(scn, world, {}, base, auto_heal=False, record_sites=sites)
    digests.append(H0.digest())
    res.count("executions")
    for v in base.violations:
        res.violations.append({**v, "placement": None})
    for key, n in base.stats.items():
        res.count(key, n)
    res.mark("interleavings", digest([op["do"][0] for op in scn["ops"]]))

    if mode == "stack":
        chosen, exhaustive, n_sites = stack_placements(scn, sites)
        mode = "enumerate"
        res.count("scenarios_stack_exhaustion")
    elif mode == "enumerate":
        chosen, exhaustive, n_sites = placements(scn, world, sites)
    if mode == "enumerate":
        res.count("sites", n_sites)
        res.count("placements", len(chosen))
        if exhaustive:
            res.count("scenarios_exhaustive")
        for pl in chosen:
            sub = Result()
            H = execute(scn, world, plan_of(pl), sub, auto_heal=True)
            res.count("executions")
            d = H.digest()
            digests.append(d)
            fired = any(k.startswith("fault:") for k in sub.stats)
            if fired:
                res.mark("nontrivial", d)
            for key, n in sub.stats.items():
                res.count(key, n)
            for key, st_ in sub.sets.items():
                res.sets.setdefault(key, set()).update(st_)
            for v in sub.violations:
                res.violations.append({**v, "placement": [pl[0], pl[1], list(pl[2]) if isinstance(pl[2], tuple) else pl[2], pl[3]]})
            if sub.violations:
                break  # one failing placement is enough; it will be minimised
    else:  # multi
        plans = {}
        for k, op in enumerate(scn["ops"]):
            f = op.get("fault")
            if not f:
                continue
            src = k
            # a retry has the sites of the request it repeats
            rec = sites.get(src)
            if not rec or not rec["kinds"]:
                continue
            n = len(rec["kinds"])
            s = 1 + min(n - 1, int(f["frac"] * n))
            ks = applicable(world, rec["kinds"][s - 1])
            plans[k] = {"site": {s: ks[f["kind_i"] % len(ks)]}}
            if f.get("catch_up"):
                plans[k]["site"][s] = {**plans[k]["site"][s], "catch_up": f["catch_up"]}
        sub = Result()
        H = execute(scn, world, plans, sub, auto_heal=False)
        res.count("executions")
        d = H.digest()
        digests.append(d)
        if any(k.startswith("fault:") for k in sub.stats):
            res.mark("nontrivial", d)
        for key, n in sub.stats.items():
            res.count(key, n)
        for v in sub.violations:
            res.violations.append({**v, "placement": "multi"})
    res.nontrivial = bool(res.sets.get("nontrivial"))
    res.digest = digest(digests)
    return res


def to_replay(scn, violation) -> dict:
    """Turn a failing enumerate-scenario into a self-contained single-placement one."""
    pl = violation.get("placement")
    if scn["mode"] not in ("enumerate", "stack") or not pl:
        return copy.deepcopy(scn)
    out = copy.deepcopy(scn)
    if scn["mode"] == "stack":
        out["stack_mode"] = True
    out["mode"] = "single"
    k, where, at, fault = pl
    out["ops"][k]["placement"] = [where, at, fault]
    return out


extra_shrinkers = ()
