"""C19 — a dumped simulation restores to the same values and entity structure.

DESIGN 4.9.  simulation -> (simulated) directory -> simulation, after a history
of requests and input changes; listing order permuted at restore; finalizers
delivered between dump and restore and after the source is dropped.
"""

from __future__ import annotations

import gc
import random

from .. import seams
from ..compile import World
from ..ctx import CTX, RunTooBig
from ..history import History, canon, canon_outcome, digest
from ..rng import Streams, chance, pick, weighted, steps
from ..sim import apply_op, form_of, build_sim, locations, readable
from ..world import gen_inputs, gen_request, gen_situation, gen_value, gen_world, wide_knob
from . import Result
from .c13 import structure
from .c17 import UNITS

from openfisca_core.tools.simulation_dumper import dump_simulation, restore_simulation

PROPERTY = "C19"
LEVEL = "exploration"
HASH_FREE = False
RULE = (
    "scenario = generated rule system (all six value types; day, week, weekday, month, year and eternal variables) + "
    "situation (permuted memberships, several roles, automatically created groups, groups without members) + inputs + "
    "a history of 0-8 requests / input changes / deletions, with or without a memory configuration on the source; "
    "then dump into the simulated file system, finalizer delivery, optional drop of the source, restore under a "
    "permuted directory listing, and 2-5 further requests on both. Non-trivial = at least 2 (variable, period) values "
    "of at least 2 value types were dumped; distinct = distinct run digests."
)
COMPONENTS = {
    "real": ["dump_simulation", "restore_simulation", "OnDiskStorage.put/restore/get", "Holder.create_disk_storage/put_in_cache", "numpy .npy codec", "SimulationBuilder", "Simulation.calculate"],
    "stub": ["file system (SimFS: numpy.save/load, os.mkdir/listdir/path.isdir)", "psutil (SimMem)", "finalizer delivery", "formula bodies (generated)"],
}


def generate(seed: int, tier: str) -> dict:
    st = Streams(seed)
    wr = st["world"]
    profile = weighted(wr, [("acyclic", 8), ("spiral", 2)])
    world = gen_world(
        wr,
        discipline=profile,
        n_vars=wr.randint(3, 9 if tier == "quick" else 14),
        max_depth=2,
        units=UNITS if profile == "acyclic" else None,
        wide=wide_knob(wr, tier, 0.15, cap=4100),
    )
    ir = st["inputs"]
    situation = gen_situation(ir, world, max_persons=5 if tier == "quick" else 12, trailing_empty_ok=True)
    inputs = gen_inputs(ir, world, p=0.55)
    kr = st["knobs"]
    knobs = {"max_spiral_loops": kr.randint(1, 3)}
    env = {"listdir_seed": kr.randrange(1 << 30)}
    names = [v["name"] for v in world["variables"]]
    if chance(kr, 0.35):
        knobs["memory"] = {"max": pick(kr, [0.0, 0.5, 1.0]), "priority": [n for n in names if chance(kr, 0.2)], "drop": []}
        env["mem"] = pick(kr, ["high", "high", "flap", "edge", "low"])
        env["mem_seed"] = kr.randrange(1 << 30)
    orr = st["ops"]
    history = []
    for _ in range(steps(orr, 0, 8)):
        r = orr.random()
        v = pick(orr, world["variables"])
        if r < 0.65:
            history.append({"do": gen_request(orr, world)})
        elif r < 0.85:
            from ..world import period_for_unit

            per = period_for_unit(orr, v["unit"]) if v["unit"] != "eternity" else "ETERNITY"
            history.append({"do": ["set_input", v["name"], per, [gen_value(orr, v, world) for _ in range(orr.randint(1, 3))]]})
        else:
            history.append({"do": ["delete_arrays", v["name"]]})
    if chance(orr, 0.2):
        # the simulation that gets dumped is a copy taken mid-way (Simulation.clone)
        history.insert(orr.randrange(len(history) + 1), {"do": ["clone"]})
    if history and chance(orr, 0.25):
        # a checkpoint: the simulation was already dumped into the same directory earlier in
        # its history (the directory must be empty for a dump: a second dump is refused and
        # the user empties the directory first - or it is accepted, and then it must be as
        # faithful as a first one)
        history.insert(orr.randrange(len(history)), {"do": ["checkpoint"]})
    after = [{"do": gen_request(orr, world)} for _ in range(orr.randint(2, 5))]
    return {
        "format": 1,
        "property": PROPERTY,
        "profile": profile,
        "seed": seed,
        "world": world,
        "situation": situation,
        "knobs": knobs,
        "inputs": inputs,
        "env": env,
        "ops": history,
        "after": after,
        "finalize_between": chance(orr, 0.6),
        "drop_source": chance(orr, 0.4),
        "twice": chance(orr, 0.3),
        "restore_again": chance(orr, 0.35),
        # member positions assigned by hand (survey-style set-ups do): any order within
        # a group is legal, and it need not be the order of appearance
        "positions_seed": orr.randrange(1, 1 << 30) if chance(orr, 0.3) else 0,
    }


def make_env(scn) -> seams.Env:
    env = scn.get("env") or {}
    fs = seams.SimFS(listdir_seed=env.get("listdir_seed", 0))
    mem = (scn.get("knobs") or {}).get("memory")
    if not mem:
        return seams.Env(fs=fs)
    sched = seams.mem_schedule(env.get("mem", "high"), mem["max"] * 100.0, random.Random(env.get("mem_seed", 0)))
    return seams.Env(mem=seams.SimMem(sched), fs=fs)


def hand_set_positions(sim, rng) -> bool:
    """Give every group's members a seeded order of their own, through the public setter."""
    import numpy

    changed = False
    for pop in sim.populations.values():
        if pop.entity.is_person:
            continue
        ids = numpy.asarray(pop.members_entity_id)
        positions = numpy.zeros(len(ids), dtype=numpy.int32)
        for g in range(pop.count):
            idx = [i for i in range(len(ids)) if ids[i] == g]
            order = list(range(len(idx)))
            rng.shuffle(order)
            for i, pos in zip(idx, order):
                positions[i] = pos
        if (positions != numpy.asarray(pop.members_position)).any():
            changed = True
        pop.members_position = positions
    return changed


def trailing_empty_group(sim):
    """Does some group entity end with an instance that has no member? (D9 mechanism)"""
    for pop in sim.populations.values():
        if pop.entity.is_person:
            continue
        ids = pop.members_entity_id
        if pop.count > (int(max(ids)) + 1 if len(ids) else 0):
            return pop.entity.key
    return None


def run(scn) -> Result:
    res = Result()
    world = World(scn["world"])
    H = History()
    env = make_env(scn)
    try:
        with env:
            sim = build_sim(world, scn["situation"], scn["knobs"], scn["inputs"])
            if scn.get("positions_seed"):
                if hand_set_positions(sim, random.Random(scn["positions_seed"])):
                    res.count("probe:member_positions_set_by_hand")
            directory = f"/sim/dump{seams.SimFS._uniq + 1}"
            seams.SimFS._uniq += 1
            checkpointed = False
            for op in scn["ops"]:
                if op["do"][0] == "checkpoint":
                    try:
                        dump_simulation(sim, directory)
                        checkpointed = True
                        res.count("probe:directory_already_holds_an_earlier_dump")
                    except Exception as e:  # noqa: BLE001
                        res.violate("C19.values", "dump", what="dump_simulation raised (checkpoint)", error=type(e).__name__, detail=str(e)[:200])
                        return _finish(res, H, scn)
                    H.add("O", "checkpoint", None, None)
                    continue
                if op["do"][0] == "clone":
                    sim = sim.clone()
                    H.add("O", "clone", None, None)
                    res.count("probe:dumped_simulation_is_a_clone")
                    continue
                out = apply_op(sim, world, op["do"], form=form_of(op["do"], len(H.events)))
                H.add("O", op["do"][0], op["do"][1:], canon_outcome(out))
                res.count("steps")
            R0 = readable(sim, env)
            S0 = structure(sim)
            sim0_loops = sim.max_spiral_loops
            trailing = trailing_empty_group(sim)
            types = {world.var_specs[k[0]]["type"] for k in R0}
            res.nontrivial = len(R0) >= 2 and len(types) >= 2
            for k in R0:
                res.count(f"probe:type_{world.var_specs[k[0]]['type']}")
                res.count(f"probe:unit_{world.var_specs[k[0]]['unit']}")
            if trailing:
                res.count("probe:trailing_empty_group")
            res.mark("states", digest(sorted([list(k), v] for k, v in locations(sim).items())))

            try:
                try:
                    dump_simulation(sim, directory)
                    if checkpointed:
                        res.count("probe:second_dump_into_the_same_directory_accepted")
                except ValueError:
                    if not checkpointed:
                        raise
                    # refused because the directory is not empty: empty it, dump again
                    res.count("probe:second_dump_into_the_same_directory_refused")
                    env.fs.rmtree(directory)
                    env.fs.mkdir(directory)
                    dump_simulation(sim, directory)
            except Exception as e:  # noqa: BLE001
                res.violate("C19.values", "dump", what="dump_simulation raised", error=type(e).__name__, detail=str(e)[:200])
                return _finish(res, H, scn)
            H.add("O", "dump", None, sorted(p[len(directory):] for p in env.fs.files if p.startswith(directory)))
            res.count("steps")
            res.count("fs_saves", env.fs.n["save"])

            expected_after = [canon_outcome(apply_op(sim, world, op["do"])) for op in scn["after"]]
            if scn.get("finalize_between"):
                gc.collect()
                res.count("fault:finalize")
            if scn.get("drop_source"):
                sim = None
                gc.collect()
                res.count("fault:drop_source")
                res.count("fault:finalize")

            try:
                restored = restore_simulation(directory, world.tbs)
            except Exception as e:  # noqa: BLE001
                res.violate(
                    "C19.structure",
                    "restore",
                    what="restore_simulation raised",
                    error=type(e).__name__,
                    detail=str(e)[:200],
                    trailing_empty_group=trailing,
                )
                return _finish(res, H, scn)
            # settings are not part of a dump: the user gives the restored simulation
            # the settings of the original
            restored.max_spiral_loops = sim0_loops
            for name, spec in world.var_specs.items():
                CTX.counts[name] = restored.populations[spec["entity"]].count
            R1 = readable(restored, env)
            H.add("R", "restore", None, sorted(map(list, R1)))
            res.count("steps")

            # C19.structure ----------------------------------------------------
            res.count("clause:C19.structure")
            S1 = structure(restored)
            if S1 != S0:
                bad = sorted(k for k in S0 if S0[k] != S1.get(k))
                res.violate("C19.structure", "restore", entities=bad, expected={k: S0[k] for k in bad[:1]}, got={k: S1.get(k) for k in bad[:1]}, trailing_empty_group=trailing)

            # C19.values / C19.noextra -----------------------------------------
            for key, value in R0.items():
                res.count("clause:C19.values")
                if key not in R1:
                    res.violate("C19.values", "restore", entry=list(key), what="missing after restore", type=world.var_specs[key[0]]["type"])
                elif canon(R1[key]) != canon(value):
                    res.violate("C19.values", "restore", entry=list(key), expected=canon(value), got=canon(R1[key]), type=world.var_specs[key[0]]["type"])
            res.count("clause:C19.noextra")
            extra = sorted(k for k in R1 if k not in R0)
            if extra:
                res.violate("C19.noextra", "restore", entries=[list(k) for k in extra[:4]])

            # the dump is still there: restoring it a second time gives the same ------
            if not res.violations and scn.get("restore_again"):
                gc.collect()
                try:
                    second = restore_simulation(directory, world.tbs)
                except Exception as e:  # noqa: BLE001
                    res.violate("C19.values", "restore-again", what="second restore of the same directory raised", error=type(e).__name__, detail=str(e)[:200])
                else:
                    res.count("clause:C19.values.again")
                    Rb = readable(second, env)
                    if canon({f"{k[0]}@{k[1]}": v for k, v in Rb.items()}) != canon({f"{k[0]}@{k[1]}": v for k, v in R0.items()}) or structure(second) != S0:
                        missing = sorted(f"{k[0]}@{k[1]}" for k in R0 if k not in Rb)[:4]
                        res.violate("C19.values", "restore-again", what="second restore of the same directory differs from the original", missing=missing)
                    second = None

            # C19.values again after a second round trip: a restored simulation is a
            # simulation like any other ---------------------------------------------
            if not res.violations and scn.get("twice"):
                directory2 = f"/sim/dump{seams.SimFS._uniq + 1}"
                seams.SimFS._uniq += 1
                try:
                    dump_simulation(restored, directory2)
                    again = restore_simulation(directory2, world.tbs)
                    again.max_spiral_loops = sim0_loops
                except Exception as e:  # noqa: BLE001
                    res.violate("C19.values", "restore2", what="second round trip raised", error=type(e).__name__, detail=str(e)[:200])
                else:
                    res.count("clause:C19.values.twice")
                    R2 = readable(again, env)
                    if canon({f"{k[0]}@{k[1]}": v for k, v in R2.items()}) != canon({f"{k[0]}@{k[1]}": v for k, v in R0.items()}) or structure(again) != S0:
                        res.violate("C19.values", "restore2", what="second round trip differs from the original")
                    restored = again

            # C19.calc -----------------------------------------------------------
            if not res.violations:
                for op, exp in zip(scn["after"], expected_after):
                    out = apply_op(restored, world, op["do"], form=form_of(op["do"], 7))
                    H.add("R", op["do"][0], op["do"][1:], canon_outcome(out))
                    res.count("steps")
                    res.count("clause:C19.calc")
                    if canon_outcome(out) != exp:
                        res.violate("C19.calc", "after", op=op["do"], expected=exp, got=canon_outcome(out))
                        break
            if env.mem is not None:
                res.count("mem_reads", env.mem.reads)
            res.count("fs_listdirs", env.fs.n["listdir"])
            restored = None
            sim = None
        return _finish(res, H, scn)
    except RunTooBig:
        res.discarded = "too big"
        res.violations = []
        return res
    finally:
        world.close()
        seams.Env.uninstall()


def _finish(res, H, scn):
    res.mark("interleavings", digest([o["do"][0] for o in scn["ops"]] + [scn.get("finalize_between"), scn.get("drop_source")]))
    res.count("executions")
    res.events = H.events
    res.digest = H.digest()
    return res


def cand_after(scn):
    import copy

    for i in range(len(scn.get("after", []))):
        c = copy.deepcopy(scn)
        del c["after"][i]
        yield c
    for key in ("finalize_between", "drop_source"):
        if scn.get(key):
            c = copy.deepcopy(scn)
            c[key] = False
            yield c


extra_shrinkers = (cand_after,)
