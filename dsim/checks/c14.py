"""C14 — reforms and system copies leave the system they derive from untouched.

DESIGN 4.5.  A pool of systems derived from one another (clone, reform, chained
reform, mutated clone, reform whose apply() fails part-way), evaluated and
inspected in any order.  Oracles: the fingerprint of every system that was not
the target of a step is unchanged; the derived system computes what a system
built from scratch from the modified specification computes.
"""

from __future__ import annotations

import copy
import types
import warnings

from ..compile import World
from ..ctx import CTX, RunTooBig
from ..history import History, canon, canon_outcome, digest
from ..rng import Streams, chance, pick, weighted, steps
from .. import seams
from ..sim import _guard, apply_knobs, apply_op, build_sim, set_input
from ..world import ExprGen, gen_inputs, gen_request, gen_situation, gen_world
from . import Result
from .c06_c07 import call_update, gen_range

from openfisca_core.reforms import Reform
from openfisca_core.tools.simulation_dumper import dump_simulation, restore_simulation

PROPERTY = "C14"
LEVEL = "exploration"
HASH_FREE = False
RULE = (
    "scenario = generated base rule system + 2 situations with inputs + a battery of up to 8 (situation, variable, period) "
    "evaluations + 4-10 ops on a growing pool of systems: derive by clone, derive by reform (1-3 modifications among add / "
    "update / replace / neutralise / annualise a variable and parameter modifier; chained to depth 3; sometimes apply() "
    "raises after k modifications), mutate a clone in place, evaluate, inspect. After every step the fingerprints of the "
    "ancestors of the touched system and of two others are recomputed (all of them at the end). Non-trivial = at least "
    "one derivation with a modification succeeded and a fingerprint of its ancestor was re-checked; distinct = run digests."
)
COMPONENTS = {
    "real": ["TaxBenefitSystem (clone, add/update/replace/neutralize/annualize_variable, get_variable)", "Reform (constructor, apply, modify_parameters)", "Variable (attribute and formula inheritance, clone)", "CoreEntity.get_variable / set_tax_benefit_system", "parameters", "SimulationBuilder, Simulation"],
    "stub": ["formula bodies (generated)", "reform classes (generated, documented API only)"],
}
PROBE_DATES = ["2017-01-01", "2018-03-01", "2019-06-15"]
PARAM_PATHS = ["p0", "g.p1", "g.h.p2"]


class InjectedApplyFailure(Exception):
    pass


# --------------------------------------------------------------------------- #
# generation
# --------------------------------------------------------------------------- #


def spec_update(spec, partial):
    """Specification-level meaning of an update, written from the statement: new
    attributes over old ones + old formulas dated before the first new formula."""
    out = copy.deepcopy(spec)
    name = partial["name"]
    old = next(v for v in out["variables"] if v["name"] == name)
    for k in ("default", "end", "label"):
        if k in partial:
            old[k] = partial[k]
    new_f = partial.get("formulas") or {}
    if new_f:
        first = min(new_f)
        old["formulas"] = {s: f for s, f in old["formulas"].items() if s < first}
        old["formulas"].update(copy.deepcopy(new_f))
    if "end" in partial:
        old["formulas"] = {s: f for s, f in old["formulas"].items() if s <= partial["end"]}
    # a fresh definition: neutralisation / annualisation of the former one do not carry over
    return out


def apply_mod_to_spec(spec, mod):
    kind = mod[0]
    out = copy.deepcopy(spec)
    if kind == "add":
        out["variables"].append(copy.deepcopy(mod[1]))
    elif kind == "update":
        out = spec_update(out, mod[1])
    elif kind == "replace":
        i = next(i for i, v in enumerate(out["variables"]) if v["name"] == mod[1]["name"])
        out["variables"][i] = copy.deepcopy(mod[1])
    elif kind == "neutralize":
        v = next(v for v in out["variables"] if v["name"] == mod[1])
        v["neutralized"] = True
    elif kind == "annualize":
        v = next(v for v in out["variables"] if v["name"] == mod[1])
        # (annualised for a stated period only - variables.get_annualized_variable(variable,
        # period) -: months outside it keep their own formula)
        v["annualized"] = True if len(mod) < 3 else {"within": list(WITHIN[mod[2]])}
        # "its January value": the formula in force at that January.  A formula
        # starting after 1 January therefore takes effect the next January.
        eff = {}
        for s in sorted(v["formulas"]):
            if s == "0001-01-01" or s[5:] == "01-01":
                eff[s] = v["formulas"][s]
            else:
                eff[f"{int(s[:4]) + 1:04d}-01-01"] = v["formulas"][s]
        v["formulas"] = eff
    elif kind == "param":
        from ..paramworld import LeafModel

        path, rg, value = mod[1], mod[2], mod[3]
        if len(mod) > 4 and mod[4] == "deep_edit":
            # the value of one dated entry assigned in place
            out["parameters"][path] = [[d, (value if d == rg["entry"] else v)] for d, v in out["parameters"][path]]
            return out
        m = LeafModel(out["parameters"][path])
        from .c06_c07 import range_bounds

        a, b = range_bounds(rg)
        m.update(a, b, value)
        out["parameters"][path] = [list(e) for e in m.entries]
    return out


# periods a variable may be annualised for, with the first days of their first and last month
WITHIN = {"year:2018:2": ("2018-01-01", "2019-12-01"), "2018": ("2018-01-01", "2018-12-01"), "month:2018-01:24": ("2018-01-01", "2019-12-01"),
          "year:2017:3": ("2017-01-01", "2019-12-01"), "year:2019:2": ("2019-01-01", "2020-12-01")}


def gen_mod(rng, spec, protected, counter):
    """One modification against the current specification of a system.

    protected: variables that carry inputs in some situation (not annualised,
    see DESIGN 4.5)."""
    vs = spec["variables"]
    kind = weighted(rng, [("add", 2), ("update", 3), ("replace", 2), ("neutralize", 2), ("annualize", 1.0), ("param", 2)])
    plain = [v for v in vs if not v.get("neutralized") and not v.get("annualized")]
    if kind == "add" or not plain:
        name = f"n{counter[0]}"
        counter[0] += 1
        shell = {"name": name, "entity": pick(rng, spec["entities"])["key"], "type": pick(rng, ["float", "int", "bool"]),
                 "unit": pick(rng, ["month", "year"]), "formulas": {}}
        tmp = copy.deepcopy(spec)
        tmp["variables"].append(shell)
        g = ExprGen(rng, tmp, len(tmp["variables"]) - 1, "acyclic")
        shell["formulas"] = {"0001-01-01": g.expr(rng.randint(0, 2))}
        return ["add", shell]
    if kind == "param":
        path = pick(rng, PARAM_PATHS)
        dates = [d for d, _ in spec["parameters"][path]]
        value = round(rng.uniform(0, 3), 2)
        held = [x for _, x in spec["parameters"][path] if x is not None]
        if held and chance(rng, 0.35):
            # a value the parameter already takes at some date (a scheduled value brought
            # forward, an old one restored)
            value = pick(rng, held)
        mod = ["param", path, gen_range(rng, dates), value]
        if chance(rng, 0.15):
            # the value of an existing dated entry assigned in place
            # (`parameter.values_list[i].value = x`, the repository's own "deep edit" idiom)
            return ["param", path, {"entry": pick(rng, dates)}, value, "deep_edit"]
        if chance(rng, 0.15):
            # older packages reach the history through the parameter's `values_history` alias
            mod.append("values_history")
        return mod
    v = pick(rng, plain)
    i = vs.index(v)
    if kind == "neutralize":
        return ["neutralize", v["name"]]
    if kind == "annualize":
        # not past-their-end variables: "default after the end date" and "January's
        # value all year" would contradict each other there
        cands = [w for w in plain if w["unit"] == "month" and w["formulas"] and w["name"] not in protected and not w.get("end")]
        if not cands:
            return ["neutralize", v["name"]]
        # (preferably a rule whose value depends on the month: its January value is then
        # not what the other months would compute)
        import json as _json

        monthly = [w for w in cands if '"im"' in _json.dumps(w["formulas"])]
        target = pick(rng, monthly if monthly and chance(rng, 0.7) else cands)
        mod = ["annualize", target["name"]]
        # (for a stated period only when every formula of the rule starts on a first of
        # January: "the formula in force at that January" and "the formula in force at the
        # month asked for" are then the same formula, inside the period and outside it)
        if chance(rng, 0.5) and all(s == "0001-01-01" or s[5:] == "01-01" for s in target["formulas"]):
            mod.append(pick(rng, sorted(WITHIN)))
        return mod
    g = ExprGen(rng, spec, i, "acyclic")
    if kind == "replace":
        new = {k: copy.deepcopy(v[k]) for k in ("name", "entity", "type", "unit") if k in v}
        for k in ("enum", "default", "max_length"):
            if k in v:
                new[k] = copy.deepcopy(v[k])
        new["formulas"] = {} if (i == 0 or chance(rng, 0.2)) else {"0001-01-01": g.expr(rng.randint(0, 2))}
        new["label"] = f"replaced {v['name']}"
        return ["replace", new]
    # update
    partial = {"name": v["name"]}
    if v["type"] in ("float", "int") and chance(rng, 0.4):
        # (the zero of the type is a declared value like any other)
        partial["default"] = pick(rng, [2.5, -1.0, 40.0, 0.0]) if v["type"] == "float" else pick(rng, [3, -2, 40, 0])
    elif v["type"] == "bool" and chance(rng, 0.4):
        partial["default"] = not v.get("default", False)
    elif v["type"] == "str" and chance(rng, 0.4):
        partial["default"] = "" if v.get("default") else "upd"[: v.get("max_length", 3)]
    if chance(rng, 0.3):
        partial["label"] = f"updated {v['name']}"
    if v["unit"] != "eternity" and i > 0 and chance(rng, 0.7):
        # one to three dated formulas: the update redefines from its *first* one on
        starts = rng.sample(["2018-01-01", "2018-07-01", "2017-06-01", "0001-01-01", "2018-03-15", "2019-01-01"], rng.randint(1, 3))
        starts = [s for s in starts if v.get("end") is None or s <= v["end"]]
        if starts:
            partial["formulas"] = {s: g.expr(rng.randint(0, 2)) for s in sorted(starts)}
    if len(partial) == 1:
        partial["label"] = f"updated {v['name']}"
    return ["update", partial]


def generate(seed: int, tier: str) -> dict:
    st = Streams(seed)
    wr = st["world"]
    world = gen_world(wr, discipline="acyclic", n_vars=wr.randint(3, 7 if tier == "quick" else 10), max_depth=2,
                      units=[("month", 65), ("year", 30), ("eternity", 5)])
    ir = st["inputs"]
    situations = []
    for _ in range(2):
        sit = gen_situation(ir, world, max_persons=3)
        situations.append({"situation": sit, "inputs": gen_inputs(ir, world, p=0.35)})
    protected = sorted({i[0] for s in situations for i in s["inputs"]})
    orr = st["ops"]
    battery = []
    for _ in range(orr.randint(4, 8)):
        r = gen_request(orr, world, allow_options=False)
        battery.append([orr.randrange(2), r[1], r[2]])
    for v in world["variables"]:
        if v.get("calculate_output") and len(battery) < 10:
            battery.append([orr.randrange(2), v["name"], "2018" if v["unit"] == "month" else "2018-03", "output"])
    specs = {"S0": world}
    parents = {"S0": None}
    kinds = {"S0": "base"}
    has_derivative = set()
    dropped = set()
    evaluated = set()
    counter = [0]
    ops = []
    for _ in range(steps(orr, 4, 10 if tier == "quick" else 18, factor=3)):
        r = orr.random()
        ids = list(specs)
        ids = [i for i in ids if i not in dropped]
        if r < 0.2:
            src = pick(orr, ids)
            new = f"S{len(specs)}"
            ops.append({"actor": "D", "do": ["clone", new, src]})
            if chance(orr, 0.3):
                # the copy loads an extension (variables and a parameter of its own), and may
                # amend that parameter at once - other systems that loaded the same extension
                # keep theirs
                ext = {"ext": "dsim.yaml_pkg.ext_a"}
                if chance(orr, 0.6):
                    ext["update"] = [gen_range(orr, ["2010-01-01", "2018-01-01"]), round(orr.uniform(0, 3), 2)]
                ops[-1]["do"].append(ext)
            specs[new], parents[new], kinds[new] = copy.deepcopy(specs[src]), src, "clone"
            has_derivative.add(src)
            if len(ops[-1]["do"]) == 3 and chance(orr, 0.25):
                # the copy is used first (its entities have resolved names, its views were
                # read), and only then is one of its rules neutralised or annualised
                cands = [w for w in specs[new]["variables"] if w["formulas"] and not w.get("neutralized") and not w.get("annualized")
                         and w["name"] not in protected]
                if cands:
                    w = pick(orr, cands)
                    m = ["annualize", w["name"]] if (w["unit"] == "month" and not w.get("end") and chance(orr, 0.4)) else ["neutralize", w["name"]]
                    uses = [k for k, b in enumerate(battery) if b[1] == w["name"]] or [orr.randrange(len(battery))]
                    ops.append({"actor": "E1", "do": ["evaluate", new, pick(orr, uses)]})
                    ops.append({"actor": "M", "do": ["mutate", new, m]})
                    specs[new] = apply_mod_to_spec(specs[new], m)
                    evaluated.add(new)
        elif r < 0.5:
            src = pick(orr, ids)
            depth = 0
            p = src
            while p:
                depth += 1
                p = parents[p]
            if depth > 3:
                continue
            new = f"S{len(specs)}"
            spec = copy.deepcopy(specs[src])
            mods = []
            if chance(orr, 0.2):
                # (one reform in five starts by annualising, for two or three years only, a
                # monthly rule whose value depends on the month)
                import json as _json

                suit = [w for w in spec["variables"] if w["unit"] == "month" and w["formulas"] and w["name"] not in protected and not w.get("end")
                        and not w.get("neutralized") and not w.get("annualized") and '"im"' in _json.dumps(w["formulas"])
                        and all(s == "0001-01-01" or s[5:] == "01-01" for s in w["formulas"])]
                if suit:
                    m = ["annualize", pick(orr, suit)["name"], pick(orr, ["year:2018:2", "year:2017:3", "month:2018-01:24"])]
                    mods.append(m)
                    spec = apply_mod_to_spec(spec, m)
            for _ in range(orr.randint(1, 3)):
                m = gen_mod(orr, spec, protected, counter)
                mods.append(m)
                spec = apply_mod_to_spec(spec, m)
            fail_after = orr.randint(0, len(mods)) if chance(orr, 0.15) else None
            ops.append({"actor": "D", "do": ["reform", new, src, mods, fail_after]})
            if fail_after is None:
                specs[new], parents[new], kinds[new] = spec, src, "reform"
                has_derivative.add(src)
        elif r < 0.65:
            cands = [i for i in ids if kinds[i] == "clone" and i not in has_derivative]
            if not cands:
                continue
            sid = pick(orr, cands)
            m = gen_mod(orr, specs[sid], protected, counter)
            if m[0] == "param" and not (ops and ops[-1]["do"][:2] == ["clone", sid]):
                continue  # in-place parameter edits only right after the copy was made (DESIGN 4.5)
            ops.append({"actor": "M", "do": ["mutate", sid, m]})
            specs[sid] = apply_mod_to_spec(specs[sid], m)
        elif r < 0.72:
            # a derived system nobody derives from is discarded (and collected): what
            # is derived afterwards must not inherit anything from it
            cands = [i for i in ids if i != "S0" and i not in has_derivative and i not in dropped]
            if not cands:
                continue
            sid = pick(orr, cands)
            dropped.add(sid)
            ops.append({"actor": "env", "do": ["drop", sid]})
        elif r < 0.9:
            sid = pick(orr, [i for i in ids if i not in dropped])
            ops.append({"actor": pick(orr, ["E1", "E2"]), "do": ["evaluate", sid, orr.randrange(len(battery))]})
            evaluated.add(sid)
        else:
            sid = pick(orr, ids)
            ops.append({"actor": "E1", "do": ["inspect", sid]})
            evaluated.add(sid)
    return {
        "format": 1,
        "property": PROPERTY,
        "profile": "systems",
        "seed": seed,
        "world": world,
        "situations": situations,
        "battery": battery,
        "ops": ops,
    }


# --------------------------------------------------------------------------- #
# operating on real systems
# --------------------------------------------------------------------------- #


def _get_param(parameters, path):
    node = parameters
    for part in path.split("."):
        node = getattr(node, part)
    return node


def do_mod(system, world: World, spec_before, mod, in_reform=True):
    """Apply one modification through the documented API."""
    kind = mod[0]
    if kind == "add":
        system.add_variable(world.compile_variable(mod[1]))
    elif kind == "replace":
        system.replace_variable(world.compile_variable(mod[1]))
    elif kind == "update":
        merged = next(v for v in spec_update(spec_before, mod[1])["variables"] if v["name"] == mod[1]["name"])
        system.update_variable(world.compile_variable(merged, partial=mod[1]))
    elif kind == "neutralize":
        system.neutralize_variable(mod[1])
    elif kind == "annualize":
        if len(mod) > 2:
            from openfisca_core import periods
            from openfisca_core.variables import get_annualized_variable

            system.variables[mod[1]] = get_annualized_variable(system.variables[mod[1]], periods.period(mod[2]))
        else:
            system.annualize_variable(mod[1])
    elif kind == "param":
        def modifier(parameters, mod=mod):
            target = _get_param(parameters, mod[1])
            if len(mod) > 4 and mod[4] == "deep_edit":
                next(v for v in target.values_list if v.instant_str == mod[2]["entry"]).value = mod[3]
                return parameters
            if len(mod) > 4 and mod[4] == "values_history":
                target = target.values_history
            call_update(target, mod[2], mod[3])
            return parameters

        if in_reform:
            system.modify_parameters(modifier)
        else:
            modifier(system.parameters)


def make_reform(base, world, spec, mods, fail_after):
    def apply(self):
        s = spec
        for k, m in enumerate(mods):
            if fail_after is not None and k == fail_after:
                raise InjectedApplyFailure(k)
            do_mod(self, world, s, m)
            s = apply_mod_to_spec(s, m)
        if fail_after is not None and fail_after >= len(mods):
            raise InjectedApplyFailure(len(mods))

    cls = types.new_class("GeneratedReform", (Reform,), {}, lambda ns: ns.update({"apply": apply}))
    return cls(base)


def evaluate(system, world, scn, entry, spec=None, knobs=None, engine=False, res=None):
    """`engine`: this is the derived system under test (not the reference rebuilt from
    the specification, whose neutralised variables are plain formula-less variables
    that must not be given inputs): inputs of neutralised variables are handed to it
    all the same - it is to ignore them, whichever way they arrive."""
    si, var, period = entry[:3]
    s = scn["situations"][si]
    inputs = s["inputs"]
    ignored = []
    if spec is not None:
        neutral = {v["name"] for v in spec["variables"] if v.get("neutralized")}
        if engine:
            ignored = [i for i in inputs if i[0] in neutral and i[0] in system.variables]
        inputs = [i for i in inputs if i[0] not in neutral]
    names = set(system.variables)
    inputs = [i for i in inputs if i[0] in names]
    try:
        if ignored and (si + len(var) + len(period)) % 2 and _same_shape(world, spec, ignored):
            # route "restore": the values sit in a dump made under the base system
            if res is not None:
                res.count("probe:neutralised_inputs_arrive_through_a_restored_dump")
            donor = build_sim(world, s["situation"], {}, ignored, tbs=world.tbs)
            seams.SimFS._uniq += 1
            directory = f"/sim/c14dump{seams.SimFS._uniq}"
            dump_simulation(donor, directory)
            sim = restore_simulation(directory, system)
            apply_knobs(sim, knobs or {})
            for i in inputs:
                try:
                    set_input(sim, world, *i)
                except Exception:  # noqa: BLE001,S110  (as build_sim: refused alike everywhere)
                    pass
        else:
            if ignored and res is not None:
                res.count("probe:neutralised_inputs_arrive_through_set_input")
            sim = build_sim(world, s["situation"], knobs or {}, inputs + ignored, tbs=system)
    except Exception as e:  # noqa: BLE001
        return ["build-exc", type(e).__name__]
    if len(entry) > 3 and entry[3] == "output":
        # through Simulation.calculate_output, for a period only the variable's
        # calculate_output helper makes sense of
        CTX.begin()
        return canon_outcome(_guard(lambda: sim.calculate_output(var, period)))
    return canon_outcome(apply_op(sim, world, ["calculate", var, period]))


def _same_shape(world, spec, inputs):
    """The neutralised variables still have the type, entity and definition period the
    base system gave them (a dump made under the base system fits)."""
    now = {v["name"]: v for v in spec["variables"]}
    for name, _period, _values in inputs:
        a, b = world.var_specs.get(name), now.get(name)
        if a is None or b is None or any(a.get(k) != b.get(k) for k in ("type", "entity", "unit", "enum", "set_input")):
            return False
    return True


def fingerprint(system, world, scn):
    fp = {"battery": [evaluate(system, world, scn, e) for e in scn["battery"]]}
    vs = {}
    for name in sorted(system.variables):
        v = system.variables[name]
        vs[name] = [
            getattr(v.value_type, "__name__", str(v.value_type)),
            v.entity.key,
            str(v.definition_period),
            canon(v.default_value) if not hasattr(v.default_value, "name") else v.default_value.name,
            str(v.end),
            str(v.label),
            bool(v.is_neutralized),
            getattr(v.set_input, "__name__", None),
            getattr(v.calculate_output, "__name__", None),
            list(v.formulas),
        ]
    fp["variables"] = vs
    res = {}
    for ent in system.entities:
        for name in sorted(system.variables):
            try:
                res[f"{ent.key}:{name}"] = ent.get_variable(name) is system.variables[name]
            except Exception as e:  # noqa: BLE001
                res[f"{ent.key}:{name}"] = type(e).__name__
        res[f"{ent.key}:bound"] = ent._tax_benefit_system is system
    fp["resolution"] = res
    ps = {}
    for path in PARAM_PATHS + (["xa.bonus"] if "xa" in system.parameters.children else []):
        for d in PROBE_DATES:
            try:
                a = _get_param(system.get_parameters_at_instant(d), path)
            except Exception as e:  # noqa: BLE001
                a = type(e).__name__
            try:
                b = _get_param(system.parameters, path)(d)
            except Exception as e:  # noqa: BLE001
                b = type(e).__name__
            ps[f"{path}@{d}"] = [a, b]
    fp["parameters"] = ps
    return fp


def fp_diff(a, b):
    out = []
    for section in a:
        if a[section] != b[section]:
            if isinstance(a[section], dict):
                keys = [k for k in a[section] if a[section][k] != b[section].get(k)] + [k for k in b[section] if k not in a[section]]
                out.append({section: keys[:4], "before": [a[section].get(k) for k in keys[:2]], "after": [b[section].get(k) for k in keys[:2]]})
            else:
                idx = [i for i, (x, y) in enumerate(zip(a[section], b[section])) if x != y]
                out.append({section: idx[:4], "before": [a[section][i] for i in idx[:2]], "after": [b[section][i] for i in idx[:2]]})
    return out


def run(scn) -> Result:
    res = Result()
    H = History()
    world = World(scn["world"])
    scratch_worlds = []
    # S6: identities of discarded systems / trees are reused; S2: dumps go to a simulated disk
    env = seams.Env(ids=seams.SimId(), fs=seams.SimFS())
    env.install()
    try:
        with warnings.catch_warnings():
            warnings.simplefilter("ignore")
            out = _run(scn, world, res, H, scratch_worlds)
            if env.ids.reused:
                res.count("fault:identity_reused", env.ids.reused)
            return out
    except RunTooBig:
        res.discarded = "too big"
        return res
    finally:
        seams.Env.uninstall()
        world.close()
        for w in scratch_worlds:
            w.close()


def _run(scn, world, res, H, scratch_worlds):
    systems = {"S0": world.tbs}
    specs = {"S0": scn["world"]}
    parents = {"S0": None}
    fps = {"S0": fingerprint(world.tbs, world, scn)}
    derived_ok = 0
    rechecked = 0

    def ancestors(sid):
        out = []
        p = parents.get(sid)
        while p:
            out.append(p)
            p = parents[p]
        return out

    def check_untouched(step, touched, what, full=False):
        nonlocal rechecked
        ids = [i for i in systems if i != touched]
        if not full:
            anc = [a for a in ancestors(touched) if a in systems] if touched else []
            others = [i for i in ids if i not in anc]
            ids = anc + others[step % max(1, len(others)):][:2]
        for sid in ids:
            res.count("clause:C14.untouched")
            now = fingerprint(systems[sid], world, scn)
            rechecked += 1
            if now != fps[sid]:
                d = fp_diff(fps[sid], now)
                res.violate("C14.untouched", step, system=sid, after=what, relation=("ancestor" if sid in ancestors(touched or "") else "other"),
                            changed=d[:2], sections=sorted({k for x in d for k in x if k not in ("before", "after")}))
                return False
        return True

    def check_derived(step, sid, what):
        spec = specs[sid]
        try:
            ref_world = World(spec)
        except Exception as e:  # noqa: BLE001
            raise AssertionError(f"harness: specification of {sid} does not compile: {e!r}") from e
        scratch_worlds.append(ref_world)
        res.count("clause:C14.derived")
        clean = True
        for entry in scn["battery"] + extra_battery(spec, scn):
            got = evaluate(systems[sid], world, scn, entry, spec, engine=True, res=res)
            want = evaluate(ref_world.tbs, ref_world, scn, entry, spec)
            if got != want:
                v = next((v for v in spec["variables"] if v["name"] == entry[1]), {})
                reads_annual = _reads_annualized(spec, entry[1])
                # mechanism probe for D12: with a larger spiral budget the annualised
                # variable's read of its own January value is not cut
                roomy = evaluate(systems[sid], world, scn, entry, spec, knobs={"max_spiral_loops": 3}, engine=True) if reads_annual else None
                res.violate("C14.derived", step, system=sid, after=what, entry=entry, expected=want, got=got,
                            annualized=bool(v.get("annualized")), neutralized=bool(v.get("neutralized")),
                            month=entry[2][5:7] if len(entry[2]) == 7 else None, reads_annualized=reads_annual,
                            spiral_budget_only=bool(reads_annual and roomy == want))
                clean = False
                if not (reads_annual and roomy == want):
                    return False
                # (the listed finding D12 - an annualised rule under the default spiral
                # budget - must not hide another difference further down the battery)
        return clean

    for step, op in enumerate(scn["ops"]):
        if res.violations:
            break
        do = op["do"]
        kind = do[0]
        res.count("steps")
        if kind == "clone":
            _, new, src = do[:3]
            if src not in systems or new in systems:
                continue
            try:
                systems[new] = systems[src].clone()
                if len(do) > 3:
                    from dsim.yaml_pkg import current

                    current.ENT = world.ent
                    if "xa" not in systems[new].parameters.children:
                        systems[new].load_extension(do[3]["ext"])
                        res.count("probe:copy_loads_an_extension")
                    if do[3].get("update"):
                        call_update(systems[new].parameters.xa.bonus, *do[3]["update"])
                        res.count("probe:extension_parameter_amended_on_the_copy")
            except Exception as e:  # noqa: BLE001
                res.violate("C14.derived", step, what="clone raised", error=type(e).__name__, detail=str(e)[:200])
                break
            specs[new], parents[new] = copy.deepcopy(specs[src]), src
            H.add("D", "clone", [new, src])
            nxt = scn["ops"][step + 1]["do"] if step + 1 < len(scn["ops"]) else None
            if nxt and nxt[0] == "mutate" and nxt[1] == new and nxt[2][0] == "param":
                # a script copies the system and edits the copy's parameters at once,
                # before any of its views is read (in-place edits of a tree whose
                # views were read are not a documented route, DESIGN 4.5)
                check_untouched(step, new, do[:3])
                continue
            if check_untouched(step, new, do[:3]):
                fps[new] = fingerprint(systems[new], world, scn)
                check_derived(step, new, do[:3])
        elif kind == "reform":
            _, new, src, mods, fail_after = do
            if src not in systems or new in systems:
                continue
            try:
                system = make_reform(systems[src], world, specs[src], mods, fail_after)
            except InjectedApplyFailure:
                res.count("fault:apply_raises")
                H.add("D", "reform-failed", [new, src, mods, fail_after])
                check_untouched(step, None, ["reform-failed", src, [m[0] for m in mods], fail_after], full=True)
                continue
            except Exception as e:  # noqa: BLE001
                res.violate("C14.derived", step, what="derivation raised", mods=[m[0] for m in mods], error=type(e).__name__, detail=str(e)[:300],
                            chain=_mods_on_same_variable(mods, specs[src]))
                break
            spec = specs[src]
            for m in mods:
                spec = apply_mod_to_spec(spec, m)
                res.count(f"probe:mod_{m[0]}")
            systems[new], specs[new], parents[new] = system, spec, src
            H.add("D", "reform", [new, src, mods])
            if check_untouched(step, new, ["reform", new, src, [m[0] for m in mods]]):
                fps[new] = fingerprint(system, world, scn)
                if check_derived(step, new, ["reform", new, src, [m[0] for m in mods]]):
                    derived_ok += 1
        elif kind == "mutate":
            _, sid, m = do
            if sid not in systems:
                continue
            if m[0] == "param" and sid in fps:
                continue  # (after shrinking) the copy's views were already read
            try:
                do_mod(systems[sid], world, specs[sid], m, in_reform=False)
            except Exception as e:  # noqa: BLE001
                res.violate("C14.derived", step, what="modification of a copy raised", mod=m[0], error=type(e).__name__, detail=str(e)[:300])
                break
            specs[sid] = apply_mod_to_spec(specs[sid], m)
            res.count(f"probe:mutate_{m[0]}")
            H.add("M", "mutate", [sid, m])
            if check_untouched(step, sid, ["mutate", sid, m[0]]):
                fps[sid] = fingerprint(systems[sid], world, scn)
                if check_derived(step, sid, ["mutate", sid, m[0]]):
                    derived_ok += 1
        elif kind == "drop":
            _, sid = do
            if sid not in systems or sid == "S0" or any(p == sid for p in parents.values()):
                continue
            del systems[sid], fps[sid]
            import gc

            gc.collect()  # FINALIZE: systems sit in reference cycles with their entities
            res.count("fault:system_dropped")
            H.add("env", "drop", [sid])
            check_untouched(step, None, do)
        elif kind == "evaluate":
            _, sid, bi = do
            if sid not in systems:
                continue
            out = evaluate(systems[sid], world, scn, scn["battery"][bi % len(scn["battery"])], specs[sid])
            H.add(op["actor"], "evaluate", [sid, bi], out)
            check_untouched(step, None, do)
        elif kind == "inspect":
            _, sid = do
            if sid not in systems:
                continue
            s = systems[sid]
            seen = [[e.key, n, e.get_variable(n) is not None] for e in s.entities for n in sorted(s.variables)]
            for d in PROBE_DATES:
                s.get_parameters_at_instant(d)
            H.add(op["actor"], "inspect", [sid], digest(seen))
            check_untouched(step, None, do)
    if not res.violations:
        check_untouched(len(scn["ops"]), None, ["end"], full=True)
    if not res.violations:
        for sid in list(systems):
            if sid != "S0" and not check_derived(len(scn["ops"]), sid, ["end"]):
                break
    res.nontrivial = derived_ok > 0 and rechecked > 0
    res.mark("interleavings", digest([(o["actor"], o["do"][0]) for o in scn["ops"]]))
    res.count("executions")
    res.events = H.events
    res.digest = H.digest()
    return res


def extra_battery(spec, scn):
    """Probe what the modifications touched: every changed variable in March and January."""
    out = []
    for v in spec["variables"]:
        if v.get("annualized") or v.get("neutralized") or v["name"].startswith("n") or str(v.get("label", "")).startswith(("updated", "replaced")):
            per = {"month": ["2018-03", "2018-01"] + (["2019-03", "2019-11", "2017-05", "2020-05"] if isinstance(v.get("annualized"), dict) else []),
                   "year": ["2018"], "eternity": ["2018-01"]}.get(v["unit"], [])
            for p in per:
                out.append([0, v["name"], p])
            if v.get("calculate_output"):
                out.append([0, v["name"], "2018" if v["unit"] == "month" else "2018-03", "output"])
    return out[:10]


def _reads_annualized(spec, name, seen=None):
    """Does the variable (transitively) read an annualised one?  (mechanism of D12)"""
    from ..shrink import _mentions

    seen = seen or set()
    if name in seen:
        return False
    seen.add(name)
    v = next((v for v in spec["variables"] if v["name"] == name), None)
    if v is None:
        return False
    if v.get("annualized"):
        return True
    acc = set()
    for f in v.get("formulas", {}).values():
        _mentions(f, acc)
    return any(_reads_annualized(spec, n, seen) for n in acc)


def _mods_on_same_variable(mods, spec):
    names = [m[1]["name"] if isinstance(m[1], dict) else m[1] for m in mods if m[0] != "param"]
    return sorted({n for n in names if names.count(n) > 1})


def cand_mods(scn):
    """Drop single modifications from reforms; drop failure injection; drop situations' inputs."""
    for k, op in enumerate(scn["ops"]):
        if op["do"][0] == "reform":
            mods = op["do"][3]
            if len(mods) > 1:
                for i in range(len(mods)):
                    c = copy.deepcopy(scn)
                    del c["ops"][k]["do"][3][i]
                    yield c
            if op["do"][4] is not None:
                c = copy.deepcopy(scn)
                c["ops"][k]["do"][4] = None
                yield c
    for si, s in enumerate(scn["situations"]):
        for i in range(len(s["inputs"])):
            c = copy.deepcopy(scn)
            del c["situations"][si]["inputs"][i]
            yield c
    if len(scn["battery"]) > 1:
        for i in range(len(scn["battery"])):
            c = copy.deepcopy(scn)
            del c["battery"][i]
            # evaluate ops refer to battery entries modulo its length: keep them valid
            yield c


extra_shrinkers = (cand_mods,)
