"""C02 — what was calculated before never corrupts what is calculated or kept next.

DESIGN 4.1.  One simulation, several requesters issuing a pool of requests in a
scheduled order with repetitions.  Oracles: a fresh simulation per request
(acyclic worlds); re-computation of every retained value on a fresh simulation
given the other readable values (all worlds); empty taint set and stack.
"""

from __future__ import annotations

import itertools

from .. import seams
from ..compile import World
from ..ctx import CTX, RunTooBig
from ..history import History, canon, canon_outcome, digest, same
from ..rng import Streams, chance, pick, weighted, steps
from ..sim import apply_op, form_of, build_sim, locations, preload, readable, stack_state, watch_spirals
from ..world import gen_chain_world, gen_inputs, gen_request, gen_situation, gen_world, wide_knob
from . import Result
from .c18 import ETERNITY, make_env

PROPERTY = "C02"
LEVEL = "exploration"
HASH_FREE = False
RULE = (
    "scenario = generated rule system (acyclic-by-name or spiral) + situation + inputs + a pool of 3-10 "
    "requests (calculate / calculate_add / calculate_divide) issued by 2-3 requesters in a seeded order "
    "with repetitions (thorough: also every permutation of small pools); knobs: max_spiral_loops 1-3, "
    "optional memory configuration under a memory-pressure schedule, and on acyclic worlds cache "
    "blacklist+opt-out / variables to drop. A run is non-trivial when at least one request ran a formula "
    "and a retained non-input value was re-verified; distinct = distinct run digests."
)
COMPONENTS = {
    "real": ["Simulation (calculate*, spiral detection, purge)", "Holder + storages", "SimulationBuilder", "TaxBenefitSystem, Variable, parameters"],
    "stub": ["psutil (SimMem)", "file system (SimFS)", "formula bodies (generated, instrumented)"],
}


def generate(seed: int, tier: str) -> dict:
    st = Streams(seed)
    wr = st["world"]
    # spiral_cyclic: quasi-circular chains *and* a true cycle, so that some requests
    # fail part-way after a spiral was cut (the purge must happen then too)
    profile = weighted(wr, [("acyclic", 5), ("spiral", 3.5), ("spiral_cyclic", 1.5), ("chain", 1.5)])
    if profile == "chain":
        # the textbook quasi-circular shape, small and dense (see gen_chain_world)
        world = gen_chain_world(wr)
        profile = "spiral"
    else:
        world = gen_world(wr, discipline=profile, n_vars=wr.randint(4, 10 if tier == "quick" else 14), max_depth=2, wide=wide_knob(wr, tier, 0.15, cap=300))
    ir = st["inputs"]
    situation = gen_situation(ir, world, max_persons=5)
    inputs = gen_inputs(ir, world, p=0.4)
    if profile != "acyclic":
        # year-defined rules inside quasi-circular chains: values held for rolling years
        # overlap, in part, the calendar years a spiral taints
        from ..world import _ROLLING_YEARS, gen_value

        for v in world["variables"]:
            if v["unit"] == "year" and v["formulas"] and chance(ir, 0.4):
                per = pick(ir, _ROLLING_YEARS)
                if not any(i[0] == v["name"] and i[1] == per for i in inputs):
                    inputs.append([v["name"], per, [gen_value(ir, v, world) for _ in range(ir.randint(1, 3))]])
    kr = st["knobs"]
    knobs = {"max_spiral_loops": pick(kr, [1, 1, 2, 3])}
    env = {}
    names = [v["name"] for v in world["variables"]]
    if chance(kr, 0.3):
        drop = [n for n in names if chance(kr, 0.25)] if profile == "acyclic" and chance(kr, 0.5) else []
        knobs["memory"] = {"max": pick(kr, [0.0, 0.5, 1.0]), "priority": [n for n in names if chance(kr, 0.2)], "drop": drop}
        env["mem"] = pick(kr, ["high", "flap", "edge", "low", "rising"])
        env["mem_seed"] = kr.randrange(1 << 30)
    if profile == "acyclic" and chance(kr, 0.3):
        knobs["blacklist"] = [n for n in names if chance(kr, 0.4)]
        knobs["opt_out"] = True
    orr = st["ops"]
    pool = []
    for _ in range(orr.randint(3, 8 if tier == "quick" else 10)):
        r = gen_request(orr, world)
        if r not in pool:
            pool.append(r)
    if profile != "acyclic":
        # In quasi-circular worlds a sum asked for at top level is, for the engine, one
        # top-level request per piece: values are retained - and may go stale (the listed
        # finding D0b) - between its pieces.  The retained-value clauses are about what is
        # readable after *each* top-level request, so such a sum is asked piece by piece
        # (acyclic worlds keep the sums whole, under C02.fresh; sums inside formulas stay).
        from .c16 import sub_periods

        units = {v["name"]: v["unit"] for v in world["variables"]}
        expanded = []
        for r in pool:
            if r[0] == "calculate_add" and units.get(r[1]) in ("month", "day", "year"):
                try:
                    pieces = sub_periods(r[2], units[r[1]])
                except Exception:  # noqa: BLE001
                    pieces = []
                for piece in pieces[:12]:
                    if ["calculate", r[1], piece] not in expanded:
                        expanded.append(["calculate", r[1], piece])
            elif r[0] != "calculate_add":
                expanded.append(r)
        pool = expanded or [gen_request(orr, world, allow_options=False)]
    mode = "order"
    if tier == "thorough" and len(pool) <= 4 and chance(orr, 0.3):
        mode = "perms"
    actors = "ABC"[: orr.randint(2, 3)]
    n_steps = steps(orr, min(len(pool), 12), max(len(pool), 12 if tier == "quick" else 20))
    order = [{"actor": pick(orr, actors), "req": orr.randrange(len(pool))} for _ in range(n_steps)]
    return {
        "format": 1,
        "property": PROPERTY,
        "profile": profile,
        "seed": seed,
        "world": world,
        "situation": situation,
        "knobs": knobs,
        "inputs": inputs,
        "env": env,
        "pool": pool,
        "mode": mode,
        "ops": order,
    }


def _calc_key(world, key, eternal_period=None):
    var, p = key
    if p == ETERNITY:
        # an eternal value is recomputed for the period it was computed for
        return ["calculate", var, (eternal_period or {}).get(var, "2018-01")]
    return ["calculate", var, p]


def reads_of_last_op(world):
    """Every (variable, period) the formulas of the last operation read - a sum or a
    division counted as the stored pieces it reads (the definition periods tiling the
    window; the whole definition period a divided read lies in)."""
    from openfisca_core import periods

    out = set()
    for f in CTX.frames:
        for rec in f.reads:
            var, period, opt = rec[0], rec[1], rec[2]
            spec = world.var_specs.get(var)
            if spec is None:
                continue
            if spec["unit"] == "eternity":
                out.add((var, ETERNITY))
            elif not opt:
                out.add((var, str(period)))
            else:
                try:
                    p = periods.period(period)
                    if opt.startswith("ADD"):
                        out.update((var, str(s)) for s in p.get_subperiods(periods.DateUnit(spec["unit"])))
                    else:
                        out.add((var, str(p.this_year if spec["unit"] == "year" else p.first_month)))
                except Exception:  # noqa: BLE001,S110  (bookkeeping for the finding matcher only)
                    out.add((var, str(period)))
    return out


def substituted_of_last_op(world):
    out = set()
    for f in CTX.frames:
        for rec in f.reads:
            if len(rec) > 5 and rec[5]:
                if isinstance(rec[5], list):
                    out.update((rec[0], q) for q in rec[5])
                else:
                    out.add((rec[0], str(rec[1])))
    return out


def verify(world, scn, R, x, inputs0, eternal_period=None):
    """Recompute x on a fresh simulation given the same inputs and the other
    readable values (inputs are set as inputs: variables that are not cached
    still accept them)."""
    fresh = build_sim(world, scn["situation"], scn["knobs"], scn["inputs"])
    preload(fresh, {k: v for k, v in R.items() if k != x and k not in inputs0})
    CTX.sim = None
    out = apply_op(fresh, world, _calc_key(world, x, eternal_period))
    reads = reads_of_last_op(world)
    return out, reads


def run_order(scn, world, order, res: Result, H: History, fresh_cache: dict):
    profile = scn["profile"]
    pool = scn["pool"]
    env = make_env(scn)
    with env:
        sim = build_sim(world, scn["situation"], scn["knobs"], scn["inputs"])
        spirals = watch_spirals(sim)
        inputs0_values = readable(sim, env)
        inputs0 = set(inputs0_values)
        verified: dict = {}  # x -> {"step", "reads", "defaults"}
        eternal_period: dict = {}  # eternal variable -> period its stored value was computed for
        first_seen: dict = {}
        prev = dict.fromkeys(inputs0)
        formulas_ran = 0
        for step, o in enumerate(order):
            do = pool[o["req"] % len(pool)]
            CTX.sim = sim
            out = apply_op(sim, world, do, form=form_of(do, step))
            CTX.sim = None
            formulas_ran += len(CTX.frames)
            for f in CTX.frames:
                if f.done and world.var_specs[f.var]["unit"] == "eternity":
                    eternal_period[f.var] = str(f.period)
            R = readable(sim, env)
            # tainted by this request: reads answered by a substituted default, and
            # values computed from them that the purge discarded
            defaults_now = substituted_of_last_op(world) | {
                k for k in ((f.var, ETERNITY if world.var_specs[f.var]["unit"] == "eternity" else str(f.period)) for f in CTX.frames if f.done) if k not in R
            }
            st = stack_state(sim)
            H.add(o["actor"], do[0], do[1:], canon_outcome(out), [sorted(map(list, R)), st])
            res.count("steps")
            res.mark("states", digest(sorted((k, v) for k, v in ((list(k), v) for k, v in locations(sim).items()))))

            # C02.purged -----------------------------------------------------
            res.count("clause:C02.purged")
            if st["stack"] or st["invalidated"]:
                res.violate("C02.purged", step, op=do, state=st)

            # C02.inputs-kept ------------------------------------------------
            # "with fixed inputs": no request - and no purge after a spiral - may remove
            # or change a value the simulation was given (in particular one held for a
            # period that overlaps a purged one in part)
            res.count("clause:C02.inputs-kept")
            for key in inputs0:
                if key not in R or not same(R[key], inputs0_values[key]):
                    res.violate("C02.inputs-kept", step, op=do, entry=list(key), got=canon(R[key]) if key in R else None)
                    break

            # C02.fresh ------------------------------------------------------
            if profile == "acyclic":
                key = o["req"] % len(pool)
                if key not in fresh_cache:
                    f = build_sim(world, scn["situation"], scn["knobs"], scn["inputs"])
                    fresh_cache[key] = canon_outcome(apply_op(f, world, do))
                res.count("clause:C02.fresh")
                if canon_outcome(out) != fresh_cache[key]:
                    res.violate("C02.fresh", step, op=do, expected=fresh_cache[key], got=canon_outcome(out))

            # C02.retained ---------------------------------------------------
            new_keys = [k for k in R if k not in prev]
            for k in new_keys:
                first_seen.setdefault(k, step)
            gone = [k for k in verified if k not in R]
            for k in gone:
                del verified[k]
            last = step == len(order) - 1
            todo_new = [k for k in new_keys if k not in inputs0]
            todo_old = [
                k
                for k, rec in verified.items()
                if k not in todo_new and (last or any(n in rec["reads"] for n in new_keys))
            ]
            if len(R) <= 60:
                for k in todo_new[:12]:
                    if isinstance(R[k], BaseException):
                        continue
                    vout, reads = verify(world, scn, R, k, inputs0, eternal_period)
                    res.count("clause:C02.retained.new")
                    ok = vout[0] == "ok" and same(vout[1], R[k])
                    if not ok:
                        res.violate(
                            "C02.retained.new",
                            step,
                            op=do,
                            entry=list(k),
                            kept=canon(R[k]),
                            recomputed=canon_outcome(vout),
                            spirals=len(spirals),
                        )
                    verified[k] = {"step": step, "reads": reads, "defaults": defaults_now}
                for k in todo_old[:12]:
                    if isinstance(R[k], BaseException):
                        continue
                    vout, reads = verify(world, scn, R, k, inputs0, eternal_period)
                    res.count("clause:C02.retained.old")
                    ok = vout[0] == "ok" and same(vout[1], R[k])
                    rec = verified[k]
                    if not ok:
                        later_defaults = sorted(
                            list(e)
                            for e in reads
                            if e in R and first_seen.get(e, -1) > rec["step"] and e in rec["defaults"]
                        )
                        res.violate(
                            "C02.retained.old",
                            step,
                            op=do,
                            entry=list(k),
                            kept=canon(R[k]),
                            recomputed=canon_outcome(vout),
                            retained_at=rec["step"],
                            reproducible_when_retained=True,
                            reads_later_retained_default=later_defaults,
                        )
                    rec["reads"] = reads
            prev = dict.fromkeys(R)
        if formulas_ran and (res.stats.get("clause:C02.retained.new") or res.stats.get("clause:C02.fresh")):
            res.nontrivial = True
        res.count("spirals", len(spirals))
        if spirals:
            res.count("probe:spiral_raised")
        if env.mem is not None:
            res.count("mem_reads", env.mem.reads)
            res.count("probe:disk_put", 1 if env.fs.n["save"] else 0)


def run(scn) -> Result:
    res = Result()
    world = World(scn["world"])
    H = History()
    try:
        fresh_cache: dict = {}
        if scn.get("mode") == "perms":
            n = len(scn["pool"])
            for perm in itertools.permutations(range(n)):
                run_order(scn, world, [{"actor": "A", "req": r} for r in perm], res, H, fresh_cache)
                res.mark("interleavings", digest(perm))
                if res.violations:
                    for v in res.violations:
                        v["perm"] = list(perm)
                    break
        else:
            run_order(scn, world, scn["ops"], res, H, fresh_cache)
            res.mark("interleavings", digest([(o["actor"], scn["pool"][o["req"] % len(scn["pool"])][0]) for o in scn["ops"]]))
        res.count("executions")
        res.events = H.events
        res.digest = H.digest()
        return res
    except RunTooBig:
        res.discarded = "too big"
        res.violations = []
        return res
    finally:
        CTX.sim = None
        world.close()
        seams.Env.uninstall()


def to_replay(scn, violation):
    import copy

    out = copy.deepcopy(scn)
    if out.get("mode") == "perms":
        out["mode"] = "order"
        out["ops"] = [{"actor": "A", "req": r} for r in violation.get("perm", range(len(out["pool"])))]
    return out


def cand_pool(scn):
    """Drop pool entries no op refers to (and re-index)."""
    import copy

    used = sorted({o["req"] % len(scn["pool"]) for o in scn["ops"]})
    if len(used) < len(scn["pool"]):
        c = copy.deepcopy(scn)
        c["pool"] = [scn["pool"][i] for i in used]
        remap = {old: new for new, old in enumerate(used)}
        c["ops"] = [{"actor": o["actor"], "req": remap[o["req"] % len(scn["pool"])]} for o in scn["ops"]]
        yield c


extra_shrinkers = (cand_pool,)
