"""C20 — the web API and YAML tests report exactly what the engine computes.

DESIGN 4.10.  World A: one Flask application instance per run served to several
clients whose request queues are interleaved by the seeded scheduler (valid and
malformed requests); oracles: the engine called directly, a fresh application
that served only that request.  World B: generated YAML test files run through
`run_tests` in several orders; oracle: margin arithmetic from the statement.
"""

from __future__ import annotations

import copy
import datetime
import email.utils
import inspect
import json
import logging
import os
import random
import shutil
import textwrap
import warnings

import numpy

from .. import seams
from ..compile import World
from ..ctx import CTX, RunTooBig
from ..history import History, canon, digest
from ..rng import Streams, chance, pick, weighted
from ..world import gen_situation, gen_value, gen_world, wide_knob
from . import Result

from openfisca_core import periods
from openfisca_core.simulations import SimulationBuilder
from openfisca_core.taxbenefitsystems import TaxBenefitSystem

logging.raiseExceptions = False
logging.disable(logging.CRITICAL)

PROPERTY = "C20"
# The YAML runner (like every pytest-based tool) states its verdicts with `assert`: under
# `python -O` every test passes, which is how Python and pytest are documented to behave, not
# a defect of the runner.  C20's lanes therefore all run with assertions enabled.
NO_OPTIMIZE = True
LEVEL = "exploration"
HASH_FREE = False
RULE = (
    "World A: generated rule system (every value type) served by one Flask application instance; 2-4 clients issue "
    "6-20 interleaved requests: POST /calculate and /trace with generated situations (inputs of every type and period "
    "spelling, 1-8 null slots across entities, variables and periods), GET /parameter, /variable, /parameters, "
    "/variables, /entities, and malformed requests (invalid JSON, wrong content type, unknown entity / variable / "
    "person, duplicate membership, unparsable period); the same request is re-issued at several points of the history. "
    "World B: YAML test files generated from the same worlds (three output layouts, every value type, absolute or "
    "relative margins, expectations at / inside / on / beyond the margin, reforms and extensions keys) run through "
    "run_tests in several orders. Non-trivial = at least one null slot was filled by a formula and compared (A) or at "
    "least 4 tests with both verdicts expected (B); distinct = distinct run digests."
)
COMPONENTS = {
    "real": ["openfisca_web_api.app.create_app (Flask, test client)", "handlers.calculate / trace", "loader (parameters, variables, entities, spec)", "SimulationBuilder.build_from_entities", "Simulation, FullTracer, FlatTrace", "tools.test_runner.run_tests (in-process pytest)", "tools.assert_near"],
    "stub": ["wall clock of the tracer (SimClock)", "HTTP transport (werkzeug test client, in-process)", "formula bodies (generated)"],
}
ASSUMPTIONS = [
    "date slots may be rendered as ISO or RFC 1123 text: the statement does not fix the format",
    "S6 (identity reuse in the YAML runner's system cache) is not controlled; every baseline stays alive for the whole session",
]


class GenSystem(TaxBenefitSystem):
    """A tax and benefit system class of its own, as a country package has."""


# --------------------------------------------------------------------------- #
# generation (API)
# --------------------------------------------------------------------------- #

SPELL = {
    "month": ["2018-01", "2018-02", "2018-03", "2019-01", "month:2018-01"],
    "year": ["2018", "2019", "year:2018"],
    "day": ["2018-01-01", "2018-02-28"],
    "eternity": ["ETERNITY", "eternity"],
}


def json_value(rng, var, world):
    v = gen_value(rng, var, world)
    if var["type"] == "float":
        return float(v)
    return v


def share_ids(rng, world, doc):
    """Name group instances after persons (ids are only unique within an entity), in
    another order than the persons are listed - only when every person is allocated
    in that entity (automatically created groups take their person's id)."""
    persons = list(doc["persons"])
    for ent in world["entities"]:
        if ent.get("is_person"):
            continue
        groups = doc.get(ent["plural"], {})
        placed = {p for g in groups.values() for lst in g.values() if isinstance(lst, list) for p in lst}
        if len(placed) != len(persons) or len(groups) > len(persons) or not groups:
            continue
        names = persons[:]
        rng.shuffle(names)
        doc[ent["plural"]] = {names[k]: g for k, (gid, g) in enumerate(groups.items())}
    return doc


def gen_doc(rng: random.Random, world: dict, n_null=None) -> dict:
    doc = gen_situation(rng, world, max_persons=4)
    if chance(rng, 0.3):
        doc = share_ids(rng, world, doc)
    by_ent = {}
    for v in world["variables"]:
        by_ent.setdefault(v["entity"], []).append(v)
    plural = {e["key"]: e["plural"] for e in world["entities"]}
    slots = []
    for ek, vs in by_ent.items():
        for iid in doc.get(plural[ek], {}):
            for v in vs:
                if v["unit"] not in SPELL:
                    continue
                for per in SPELL[v["unit"]][:4]:
                    slots.append((plural[ek], iid, v, per))
    rng.shuffle(slots)
    n_null = n_null or rng.randint(1, 8)
    nulls = 0
    used = set()
    for pl, iid, v, per in slots:
        canon_p = str(periods.period(per))
        if (pl, iid, v["name"], canon_p) in used:
            continue
        inst = doc[pl][iid]
        if nulls < n_null and (v["formulas"] or chance(rng, 0.3)) and not (v["unit"] == "eternity" and v["formulas"]):
            inst.setdefault(v["name"], {})[per] = None
            nulls += 1
            used.add((pl, iid, v["name"], canon_p))
        elif chance(rng, 0.12):
            inst.setdefault(v["name"], {})[per] = json_value(rng, v, world)
            used.add((pl, iid, v["name"], canon_p))
    return doc


MALFORMED = ["invalid_json", "wrong_content_type", "unknown_entity", "unknown_variable", "unknown_person", "duplicate_membership", "bad_period", "not_an_object"]


def gen_requests(rng: random.Random, world: dict, n: int):
    reqs = []
    docs = []
    param_ids = [p.replace(".", "/") for p in world["parameters"]]
    for _ in range(n):
        r = rng.random()
        if r < 0.45:
            if docs and chance(rng, 0.3):
                doc = copy.deepcopy(pick(rng, docs))  # the same request re-issued later
            else:
                doc = gen_doc(rng, world)
                docs.append(copy.deepcopy(doc))
            reqs.append(["POST", "/calculate", doc])
        elif r < 0.6:
            doc = copy.deepcopy(pick(rng, docs)) if docs and chance(rng, 0.6) else gen_doc(rng, world, n_null=rng.randint(1, 3))
            reqs.append(["POST", "/trace", doc])
        elif r < 0.7:
            reqs.append(["GET", "/parameter/" + pick(rng, param_ids), None])
        elif r < 0.8:
            reqs.append(["GET", "/variable/" + pick(rng, world["variables"])["name"], None])
        elif r < 0.86:
            reqs.append(["GET", pick(rng, ["/parameters", "/variables", "/entities", "/variable/nope", "/parameter/nope"]), None])
        else:
            kind = pick(rng, MALFORMED)
            doc = gen_doc(rng, world, n_null=1)
            persons = list(doc["persons"])
            groups = [k for k in doc if k != "persons"]
            body = None
            if kind == "invalid_json":
                body = json.dumps(doc)[:-3] + "!!"
            elif kind == "unknown_entity":
                doc["martians"] = {"m0": {}}
            elif kind == "unknown_variable":
                doc["persons"][persons[0]]["no_such_variable"] = {"2018-01": None}
            elif kind == "unknown_person" and groups:
                g = doc[groups[0]]
                gid = next(iter(g))
                role = world_first_role(world, groups[0])
                g[gid][role] = list(g[gid].get(role, [])) + ["nobody"]
            elif kind == "duplicate_membership" and groups and len(doc[groups[0]]) >= 1:
                g = doc[groups[0]]
                gid = next(iter(g))
                role = world_first_role(world, groups[0], unbounded=True)
                if role:
                    g[gid][role] = list(g[gid].get(role, [])) + [persons[0], persons[0]]
            elif kind == "bad_period":
                v = world["variables"][0]
                doc["persons"][persons[0]].setdefault(v["name"], {})["2018-13-45"] = None
            elif kind == "not_an_object":
                doc = [1, 2, 3]
            reqs.append(["POST!", pick(rng, ["/calculate", "/trace"]), {"kind": kind, "doc": doc, "body": body}])
    return reqs


def world_first_role(world, plural, unbounded=False):
    ent = next(e for e in world["entities"] if e["plural"] == plural)
    for r in ent["roles"]:
        if not unbounded or (r.get("max") is None and not r.get("subroles")):
            return r["plural"]
    return None


def generate(seed: int, tier: str) -> dict:
    st = Streams(seed)
    profile = weighted(st["profile"], [("api", 7), ("yaml", 3)])
    if profile == "yaml":
        from .c20_yaml import generate_yaml

        return generate_yaml(seed, tier, st)
    wr = st["world"]
    wide = wide_knob(wr, tier, 0.15)
    if wide:
        # no literal NaN / Infinity in posted documents (not JSON); they arise all the same,
        # from float32 overflow and from differences of infinities
        wide["nonfinite"] = False
        if wide.get("persons"):
            wide["persons"] = [n for n in wide["persons"] if n <= 130] or [33]
    world = gen_world(wr, discipline="acyclic", n_vars=wr.randint(3, 8 if tier == "quick" else 12), max_depth=2,
                      units=[("month", 60), ("year", 25), ("eternity", 8), ("day", 7)], wide=wide)
    orr = st["ops"]
    clients = [f"K{k}" for k in range(1, orr.randint(2, 4) + 1)]
    reqs = gen_requests(orr, world, orr.randint(6, 14 if tier == "quick" else 25))
    ops = [{"actor": pick(orr, clients), "do": r} for r in reqs]
    return {
        "format": 1,
        "property": PROPERTY,
        "profile": "api",
        "seed": seed,
        "world": world,
        "clock": pick(st["clock"], ["steady", "stall", "jump+", "jump-", "random"]),
        "clock_seed": st["clock"].randrange(1 << 30),
        "fresh_rate": 0.35 if tier == "quick" else 1.0,
        "fresh_seed": st["clock"].randrange(1 << 30),
        "ops": ops,
    }


# --------------------------------------------------------------------------- #
# running (API)
# --------------------------------------------------------------------------- #


def send(client, req):
    method, path, payload = req
    if method == "GET":
        return client.get(path)
    if method == "POST":
        return client.post(path, data=json.dumps(payload), content_type="application/json")
    kind = payload["kind"]
    if kind == "invalid_json":
        return client.post(path, data=payload["body"], content_type="application/json")
    if kind == "wrong_content_type":
        return client.post(path, data=json.dumps(payload["doc"]), content_type="text/plain")
    return client.post(path, data=json.dumps(payload["doc"]), content_type="application/json")


def body_of(resp):
    try:
        return json.loads(resp.get_data(as_text=True))
    except Exception:  # noqa: BLE001
        return {"_raw": resp.get_data(as_text=True)[:200]}


def strip_times(x):
    if isinstance(x, dict):
        return {k: strip_times(v) for k, v in x.items() if k not in ("calculation_time", "formula_time")}
    if isinstance(x, list):
        return [strip_times(v) for v in x]
    if isinstance(x, float) and x != x:
        return "<NaN>"  # (bodies are compared as data: a NaN equals a NaN)
    return x


def parse_date(text):
    if not isinstance(text, str):
        return None
    try:
        return datetime.date.fromisoformat(text[:10]) if len(text) == 10 else email.utils.parsedate_to_datetime(text).date()
    except Exception:  # noqa: BLE001
        return None


def expected_slot(world: World, spec, array, index):
    """The engine's value for one entity, rendered in the variable's type."""
    t = spec["type"]
    x = array[index]
    if t == "enum":
        en = next(e for e in world.spec["enums"] if e["name"] == spec["enum"])
        return ("eq", en["members"][int(numpy.asarray(array.view(numpy.ndarray))[index])])
    if t == "float":
        return ("eq", float(str(numpy.float32(x))))
    if t == "int":
        return ("eq", int(x))
    if t == "bool":
        return ("eq", bool(x))
    if t == "str":
        return ("eq", x.decode() if isinstance(x, bytes) else str(x))
    if t == "date":
        return ("date", x.astype("datetime64[D]").astype(datetime.date))
    raise ValueError(t)


def slot_ok(exp, got):
    kind, want = exp
    if kind == "date":
        return parse_date(got) == want
    if isinstance(want, float) and isinstance(got, (int, float)) and not isinstance(got, bool):
        return float(got) == want or (want != want and got != got)
    return type(got) is type(want) and got == want


def walk_slots(doc):
    """(plural, id, variable, period, value) for every variable-period leaf of a situation."""
    for plural, instances in doc.items():
        if not isinstance(instances, dict):
            continue
        for iid, inst in instances.items():
            if not isinstance(inst, dict):
                continue
            for key, val in inst.items():
                if isinstance(val, dict):
                    for per, x in val.items():
                        yield plural, iid, key, per, x


def check_calculate(res, step, world: World, ref_tbs, doc, body, do):
    """C20.fill and C20.echo for a 200 response of /calculate."""
    try:
        with warnings.catch_warnings():
            warnings.simplefilter("ignore")
            sim = SimulationBuilder().build_from_entities(ref_tbs, copy.deepcopy(doc))
    except Exception as e:  # noqa: BLE001
        res.violate("C20.fill", step, what="the API answered 200 but the engine refuses the situation", error=type(e).__name__)
        return 0
    filled = 0
    CTX.begin()
    for plural, iid, var, per, x in walk_slots(doc):
        got = body.get(plural, {}).get(iid, {}).get(var, {}).get(per, "<missing>") if isinstance(body, dict) else "<missing>"
        if x is None:
            res.count("clause:C20.fill")
            spec = world.var_specs[var]
            pop = sim.get_population(plural)
            index = [str(i) for i in pop.ids].index(iid)
            try:
                array = sim.calculate(var, per)
            except Exception as e:  # noqa: BLE001
                res.violate("C20.fill", step, what="the API answered 200 but the engine raises for this slot", slot=[plural, iid, var, per], error=type(e).__name__)
                return filled
            exp = expected_slot(world, spec, array, index)
            if spec["formulas"]:
                filled += 1
            res.count(f"probe:slot_{spec['type']}")
            if not slot_ok(exp, got):
                res.violate("C20.fill", step, slot=[plural, iid, var, per], type=spec["type"], max_length=spec.get("max_length"),
                            expected=str(exp[1]), got=got if isinstance(got, (str, int, float, bool, type(None))) else str(got))
                return filled
        else:
            res.count("clause:C20.echo")
            if got != x:
                res.violate("C20.echo", step, slot=[plural, iid, var, per], sent=x, got=got)
                return filled
    # nothing else is added, roles echoed
    res.count("clause:C20.echo")
    extra = added_keys(doc, body)
    if extra:
        res.violate("C20.echo", step, what="keys added to the posted document", keys=extra[:4])
    return filled


def added_keys(sent, got, path=()):
    out = []
    if isinstance(sent, dict) and isinstance(got, dict):
        for k, v in got.items():
            if k not in sent:
                out.append("/".join((*path, str(k))))
            else:
                out.extend(added_keys(sent[k], v, (*path, str(k))))
        for k in sent:
            if k not in got:
                out.append("-" + "/".join((*path, str(k))))
    elif isinstance(sent, list):
        if sent != got:
            out.append("~" + "/".join(path))
    return out


def check_trace(res, step, world: World, doc, body, calc_body):
    """C20.trace: /trace values equal the /calculate values of the same request."""
    desc = body.get("entitiesDescription", {})
    trace = body.get("trace", {})
    for plural, iid, var, per, x in walk_slots(doc):
        if x is not None:
            continue
        res.count("clause:C20.trace")
        key = f"{var}<{periods.period(per)}>"
        node = trace.get(key)
        ids = [str(i) for i in desc.get(plural, [])]
        if node is None or iid not in ids:
            res.violate("C20.trace", step, slot=[plural, iid, var, per], what="requested calculation missing from the trace", key=key)
            return
        tv = node["value"][ids.index(iid)]
        cv = calc_body.get(plural, {}).get(iid, {}).get(var, {}).get(per)
        spec = world.var_specs[var]
        if spec["type"] == "float":
            same = numpy.float32(tv) == numpy.float32(cv) or (tv != tv and cv != cv)
        elif spec["type"] == "date":
            same = parse_date(tv) == parse_date(cv)
        else:
            same = tv == cv
        if not same:
            res.violate("C20.trace", step, slot=[plural, iid, var, per], type=spec["type"], trace_value=tv, calculate_value=cv)
            return


def check_parameter(res, step, world: World, tbs, pid, body):
    res.count("clause:C20.listing")
    node = tbs.parameters
    for part in pid.split("/"):
        node = getattr(node, part, None)
        if node is None:
            return
    probes = ["1899-12-31", "1950-06-01", "2017-12-31", "2018-01-01", "2018-06-15", "2019-12-31", "2021-01-01"]
    if "values" in body:
        listed = body["values"]
        for d in list(listed) + probes:
            cands = sorted(k for k in listed if k <= d)
            api = listed[cands[-1]] if cands else None
            if api != node(d):
                res.violate("C20.listing", step, parameter=pid, date=d, api=api, engine=node(d))
                return
    elif "brackets" in body:
        listed = body["brackets"]
        # at every listed date and at probe dates: the entry in force is the scale the engine uses
        for d in list(listed) + probes:
            cands = sorted(k for k in listed if k <= d)
            brackets = listed[cands[-1]] if cands else None
            sc = node(d)
            want = {float(t): float(r) for t, r in zip(sc.thresholds, sc.rates)}
            got = {float(t): (None if r is None else float(r)) for t, r in (brackets or {}).items()}
            got = {t: r for t, r in got.items() if r is not None}
            if got != want:
                res.violate("C20.listing", step, parameter=pid, date=d, entry_in_force=cands[-1] if cands else None, api=got, engine=want)
                return


def check_variable(res, step, world: World, tbs, name, body):
    res.count("clause:C20.listing")
    variable = tbs.get_variable(name)
    formulas = body.get("formulas", {})
    for d in ["2016-01-01", "2017-06-01", "2018-01-01", "2018-03-15", "2018-07-01", "2019-01-01", "2019-04-01", "2020-01-01"]:
        starts = sorted(s for s in formulas if s <= d)
        api = formulas[starts[-1]] if starts else None
        f = variable.get_formula(d)
        want = None if f is None else textwrap.dedent(inspect.getsource(f))
        got = None if api is None else api.get("content")
        if got != want:
            res.violate("C20.listing", step, variable=name, date=d, api=(got or "")[:80], engine=(want or "")[:80])
            return
    spec = world.var_specs[name]
    if body.get("entity") != spec["entity"] or body.get("definitionPeriod") != spec["unit"].upper():
        res.violate("C20.listing", step, variable=name, what="entity / definition period differ", body={k: body.get(k) for k in ("entity", "definitionPeriod")})


def run(scn) -> Result:
    if scn.get("profile") == "yaml":
        from .c20_yaml import run_yaml

        return run_yaml(scn)
    from openfisca_web_api.app import create_app

    res = Result()
    H = History()
    world = World(scn["world"])
    env = seams.Env(clock=seams.SimClock(scn.get("clock", "steady"), scn.get("clock_seed", 0)))
    try:
        with env, warnings.catch_warnings():
            warnings.simplefilter("ignore")
            tbs = world.make_system(GenSystem)
            ref_tbs = world.make_system(GenSystem)
            app = create_app(tbs)
            client = app.test_client()
            frng = random.Random(scn.get("fresh_seed", 0))
            filled_total = 0
            last_calc = {}
            for step, op in enumerate(scn["ops"]):
                do = op["do"]
                method, path, payload = do
                CTX.begin()
                resp = send(client, do)
                body = body_of(resp)
                H.add(op["actor"], method, [path, digest(payload)], [resp.status_code, digest(strip_times(body))])
                res.count("steps")
                res.count(f"probe:status_{resp.status_code}")
                if method == "POST!":
                    res.count(f"fault:client_{payload['kind']}")
                    if resp.status_code >= 500 and payload["kind"] not in ("not_an_object",):
                        res.count("probe:malformed_5xx")
                # C20.history: a fresh application that serves only this request -------
                if frng.random() < scn.get("fresh_rate", 1.0):
                    res.count("clause:C20.history")
                    fresh = create_app(world.make_system(GenSystem)).test_client()
                    CTX.begin()
                    fresp = send(fresh, do)
                    fbody = body_of(fresp)
                    if fresp.status_code != resp.status_code or strip_times(fbody) != strip_times(body):
                        res.violate("C20.history", step, request=[method, path], status=[resp.status_code, fresp.status_code],
                                    served_before=step, diff=_first_diff(strip_times(fbody), strip_times(body)))
                        break
                if resp.status_code != 200:
                    continue
                if method == "POST" and path == "/calculate":
                    filled_total += check_calculate(res, step, world, ref_tbs, payload, body, do)
                    last_calc[digest(payload)] = body
                elif method == "POST" and path == "/trace":
                    key = digest(payload)
                    if key not in last_calc:
                        cresp = client.post("/calculate", data=json.dumps(payload), content_type="application/json")
                        if cresp.status_code == 200:
                            last_calc[key] = body_of(cresp)
                    if key in last_calc:
                        check_trace(res, step, world, payload, body, last_calc[key])
                elif method == "GET" and path.startswith("/parameter/"):
                    check_parameter(res, step, world, ref_tbs, path[len("/parameter/"):], body)
                elif method == "GET" and path.startswith("/variable/"):
                    check_variable(res, step, world, ref_tbs, path[len("/variable/"):], body)
                if res.violations:
                    break
            res.nontrivial = filled_total > 0
            res.count("clock_reads", env.clock.reads)
        res.mark("interleavings", digest([(o["actor"], o["do"][0], o["do"][1]) for o in scn["ops"]]))
        res.count("executions")
        res.events = H.events
        res.digest = H.digest()
        return res
    except RunTooBig:
        res.discarded = "too big"
        return res
    finally:
        world.close()
        seams.Env.uninstall()


def _first_diff(a, b, path=""):
    if type(a) is not type(b):
        return {"at": path, "fresh": str(a)[:120], "served": str(b)[:120]}
    if isinstance(a, dict):
        for k in sorted(set(a) | set(b), key=str):
            if a.get(k, "<absent>") != b.get(k, "<absent>"):
                return _first_diff(a.get(k, "<absent>"), b.get(k, "<absent>"), f"{path}/{k}")
    if isinstance(a, list) and len(a) == len(b):
        for i, (x, y) in enumerate(zip(a, b)):
            if x != y:
                return _first_diff(x, y, f"{path}[{i}]")
    return {"at": path, "fresh": str(a)[:120], "served": str(b)[:120]}


def cand_docs(scn):
    """Shrink posted documents: drop slots and instances."""
    if scn.get("profile") != "api":
        return
    for k, op in enumerate(scn["ops"]):
        do = op["do"]
        doc = do[2] if do[0] == "POST" else None
        if not isinstance(doc, dict):
            continue
        for plural, iid, var, per, x in list(walk_slots(doc)):
            c = copy.deepcopy(scn)
            d = c["ops"][k]["do"][2]
            del d[plural][iid][var][per]
            if not d[plural][iid][var]:
                del d[plural][iid][var]
            yield c


extra_shrinkers = (cand_docs,)


def cand_yaml(scn):
    """Shrink a YAML session: drop tests, drop outputs, drop reforms/extensions."""
    if scn.get("profile") != "yaml":
        return
    n = len(scn["tests"])
    if n > 2:
        for i in range(n):
            c = copy.deepcopy(scn)
            del c["tests"][i]
            c["orders"] = [[j - (j > i) for j in o if j != i] for o in scn["orders"]]
            yield c
    for i, t in enumerate(scn["tests"]):
        if len(t["outputs"]) > 1:
            for k in range(len(t["outputs"])):
                c = copy.deepcopy(scn)
                del c["tests"][i]["outputs"][k]
                yield c
        for key in ("reforms", "extensions", "inputs"):
            if t.get(key):
                c = copy.deepcopy(scn)
                c["tests"][i][key] = []
                yield c
        if t.get("margin"):
            c = copy.deepcopy(scn)
            c["tests"][i]["margin"] = None
            yield c


extra_shrinkers = (cand_docs, cand_yaml)


def warm_up() -> None:
    """Imported once by the worker before it forks: children start warm."""
    import _pytest.config  # noqa: F401
    import flask  # noqa: F401
    import pytest  # noqa: F401

    import openfisca_core.tools.test_runner  # noqa: F401
    import openfisca_web_api.app  # noqa: F401

    from . import c20_yaml  # noqa: F401
