"""C20, world B — YAML rules tests: verdicts and their independence of test order."""

from __future__ import annotations

import contextlib
import copy
import datetime
import os
import random
import shutil
import warnings
import xml.etree.ElementTree as ET

import numpy
import yaml

from ..compile import World
from ..history import History, canon, digest
from ..rng import chance, pick, weighted
from ..world import gen_inputs, gen_situation, gen_value, gen_world
from . import Result

from openfisca_core import periods
from openfisca_core.indexed_enums import EnumArray
from openfisca_core.simulations import SimulationBuilder

SCRATCH = f"/dev/shm/dsim-yaml-{os.getpid()}"
REFORMS = ["dsim.yaml_pkg.reforms.add_bonus", "dsim.yaml_pkg.reforms.neutralize_first", "dsim.yaml_pkg.reforms.add_flag"]
EXTENSIONS = ["dsim.yaml_pkg.ext_a", "dsim.yaml_pkg.ext_b"]
NO_SUCH_EXTENSION = "dsim.yaml_pkg.ext_that_is_not_installed"
EXTRA_VARS = {"dsim.yaml_pkg.reforms.add_bonus": ("r_bonus", "2018-01"), "dsim.yaml_pkg.reforms.add_flag": ("r_flag", "2018-01"),
              "dsim.yaml_pkg.ext_a": ("x_a", "2018-01"), "dsim.yaml_pkg.ext_b": ("x_b", "2018")}


def generate_yaml(seed, tier, st):
    wr = st["world"]
    world = gen_world(wr, discipline="acyclic", n_vars=wr.randint(3, 7), max_depth=2,
                      units=[("month", 65), ("year", 30), ("eternity", 5)],
                      ratio=False)  # (margins around a NaN or an infinite engine value decide nothing)
    ir = st["inputs"]
    tests = []
    n = ir.randint(6, 12 if tier == "quick" else 30)
    for k in range(n):
        sit = gen_situation(ir, world, max_persons=3)
        inputs = gen_inputs(ir, world, p=0.35)
        t = {
            "name": f"t{k}",
            "situation": sit,
            "inputs": [i for i in inputs if i[1] != "ETERNITY" or True],
            "period": pick(ir, ["2018-01", "2018-02", "2018"]),
            "margin": weighted(ir, [(None, 3), (["abs", pick(ir, [0.5, 1.0, 2.0])], 3), (["rel", pick(ir, [0.5, 0.25])], 2),
                                    (["abs", pick(ir, [0.5, 1.0, 2.0]), {v["name"]: pick(ir, [0, 0, 0.25, 4.0]) for v in world["variables"] if chance(ir, 0.5)}], 2),
                                    (["rel", pick(ir, [0.5, 0.25]), {v["name"]: pick(ir, [0, 0, 0.125]) for v in world["variables"] if chance(ir, 0.5)}], 1.5)]),
            "reforms": [],
            "extensions": [],
            "outputs": [],
        }
        r = ir.random()
        if r < 0.2:
            t["reforms"] = ir.sample(REFORMS, ir.randint(1, 2))
        elif r < 0.4:
            t["extensions"] = ir.sample(EXTENSIONS, ir.randint(1, 2))
        elif r < 0.55:
            # both keys: reforms are applied first, extensions loaded on the result
            t["reforms"] = ir.sample(REFORMS, ir.randint(1, 2))
            t["extensions"] = ir.sample(EXTENSIONS, ir.randint(1, 2))
        for _ in range(ir.randint(1, 3)):
            v = pick(ir, world["variables"])
            t["outputs"].append({
                "var": v["name"],
                "layout": pick(ir, ["variable", "entity", "instance"]),
                "place": weighted(ir, [("at", 4), ("inside", 2), ("on", 1.5), ("beyond", 3), ("just_beyond", 1.5)]),
                "with_period": chance(ir, 0.3),
                "sign": pick(ir, [1, -1]),
            })
            if v["unit"] in ("month", "year") and chance(ir, 0.3):
                # the expectation is a {period: value} map with a second period, which
                # is checked like the first - whatever the first one's verdict
                t["outputs"][-1]["also"] = {"period": pick(ir, ["2018-03", "2019-01", "2017-12"] if v["unit"] == "month" else ["2019", "2017"]),
                                            "place": weighted(ir, [("at", 3), ("inside", 1), ("beyond", 4)])}
                if chance(ir, 0.6):
                    t["outputs"][-1]["place"] = pick(ir, ["at", "inside"])
        for key in t["reforms"] + t["extensions"]:
            if key in EXTRA_VARS and chance(ir, 0.7):
                t["outputs"].append({"var": EXTRA_VARS[key][0], "layout": "variable", "place": pick(ir, ["at", "beyond"]), "with_period": True, "sign": 1, "extra": EXTRA_VARS[key][1]})
        tests.append(t)
    if len(tests) >= 3 and chance(ir, 0.2):
        # two tests declare, in the same words, an extension that cannot be loaded: neither
        # can pass - however right their expectations would be on the system the runner gets
        # as far as building (the first refusal must not leave anything behind for the second)
        a, b = ir.sample(range(len(tests)), 2)
        decl = [pick(ir, EXTENSIONS), NO_SUCH_EXTENSION]
        for k in (a, b):
            tests[k]["reforms"] = []
            tests[k]["extensions"] = list(decl)
            tests[k]["unloadable"] = True
            for o in tests[k]["outputs"]:
                o["place"] = "at"
                o.pop("also", None)
    orr = st["ops"]
    order2 = list(range(n))
    orr.shuffle(order2)
    # the second session may ask for logs (computation log, performance graph / tables:
    # tracing on, files written to the working directory) - and the working directory
    # may refuse them (F6 for the runner: a directory of that name is in the way)
    logs = {}
    if chance(orr, 0.4):
        logs = {k: True for k in ("verbose", "performance_graph", "performance_tables") if chance(orr, 0.5)}
        if logs.get("verbose"):
            # as the command line does: a depth is always given (its default is sys.maxsize)
            logs["max_depth"] = pick(orr, [9223372036854775807, 1, 3])
            logs["aggregate"] = chance(orr, 0.3)
        if (logs.get("performance_graph") or logs.get("performance_tables")) and chance(orr, 0.5):
            logs["blocked"] = True
    return {
        "format": 1,
        "property": "C20",
        "profile": "yaml",
        "seed": seed,
        "world": world,
        "tests": tests,
        "orders": [list(range(n)), order2],
        "run_options": [{}, logs],
        "ops": [],
    }


# --------------------------------------------------------------------------- #


def doc_of(world: World, t):
    """The `input:` document: situation + inputs given per entity instance (vectors
    declared as the builder's variables-at-instance form)."""
    doc = copy.deepcopy(t["situation"])
    return doc


def unit_period(spec, default_period):
    """The period a bare expectation is computed for: the test's default period; if
    it does not fit the variable, the expectation carries its own period."""
    u = spec["unit"]
    if u == "eternity":
        return default_period
    p = periods.period(default_period)
    if str(p.unit) == u:
        return default_period
    return {"month": "2018-01", "year": "2018", "day": "2018-01-01"}[u]


def render(spec, x):
    t = spec["type"]
    if t == "float":
        return float(x)
    if t == "int":
        return int(x)
    if t == "bool":
        return bool(x)
    if t == "date":
        return x.astype("datetime64[D]").astype(datetime.date)
    if t == "str":
        return x.decode() if isinstance(x, bytes) else str(x)
    raise ValueError(t)


def place_value(spec, actual, place, margin, sign, default_margin=None):
    """(expected scalar, should_pass | None) for one entity; None = undecidable, skip."""
    if margin is not None and margin[1] == 0:
        # a margin of zero stated for this variable means exact equality - even when
        # the default margin is wider: "beyond" lands inside the default on purpose
        if spec["type"] in ("float", "int") and place == "beyond" and default_margin:
            a = float(numpy.float32(actual))
            if a != a or abs(a) == float("inf"):
                return None, None
            if margin[0] == "abs":
                return a + sign * default_margin / 2, False
            if a != 0:
                return a * (1 + default_margin / 8), False
        margin = None
    t = spec["type"]
    if place == "just_beyond" and not (t in ("float", "int") and margin is not None and margin[0] == "abs" and margin[1] != 0):
        place = "beyond"
    if t == "bool":
        # booleans are compared as the numbers 0 / 1: a flipped value differs by 1
        if place in ("at", "inside", "on"):
            return actual, True
        e = not actual
        if margin is None:
            return e, False
        kind, m = margin
        return e, (1.0 <= m if kind == "abs" else 1.0 <= abs(m * float(e)))
    if t in ("enum", "str", "date"):
        if place in ("at", "inside", "on"):
            return actual, True
        return None, False  # caller substitutes a different value
    a = float(numpy.float32(actual))
    if a != a or abs(a) == float("inf"):
        return None, None
    if margin is None:
        if place in ("at", "inside", "on"):
            return (int(a) if t == "int" else a), True
        return (int(a) + sign * 1 if t == "int" else a + sign * max(1.0, abs(a)) * 0.5), False
    kind, m = margin
    if kind == "abs":
        if place == "at":
            return (int(a) if t == "int" else a), True
        exact = a == int(a) and abs(a) < 2 ** 20
        if place == "on":
            if not exact:
                return None, None
            e = a + sign * m
            return (e if (t == "float" or e != int(e)) else int(e)), True
        if place == "inside":
            e = a + sign * m / 4 if exact or abs(a) < 1e5 else a
            return e, True
        if place == "just_beyond":
            # a few millionths of the value past the margin: far more than float32
            # rounding, far less than any slack proportional to the value would excuse
            excess = abs(a) * 5e-6
            if excess >= 32 * float(numpy.spacing(numpy.float32(abs(a) + m + excess))):
                return a + sign * (m + excess), False
        e = a + sign * m * 3 + sign * abs(a) * 1e-3
        return e, False
    # relative to the expected value
    if place == "at":
        return (int(a) if t == "int" else a), True
    if place == "on":
        return None, None
    if a == 0:
        return (0.0, True) if place == "inside" else (1.0, False)
    if place == "inside":
        return a * (1 + m / 4), True
    return a * (1 + 4 * m), False


def different(spec, world: World, actual):
    t = spec["type"]
    if t == "bool":
        return not bool(actual)
    if t == "enum":
        en = next(e for e in world.spec["enums"] if e["name"] == spec["enum"])
        return next(m for m in en["members"] if m != actual)
    if t == "date":
        return actual + datetime.timedelta(days=3)
    if t == "str":
        return actual + "x"
    raise ValueError(t)


def build_test(world: World, tbs, t):
    """Return (yaml item, should_pass, details) or None when nothing decidable."""
    from ..ctx import CTX

    CTX.begin()
    with warnings.catch_warnings():
        warnings.simplefilter("ignore")
        builder = SimulationBuilder()
        builder.set_default_period(t["period"])
        doc = doc_of(world, t)
        try:
            sim = builder.build_from_dict(tbs, copy.deepcopy(doc))
        except Exception:  # noqa: BLE001
            return None
        from ..sim import set_input

        applied = []
        for var, per, vals in t["inputs"]:
            if var not in tbs.variables:
                continue
            spec = world.var_specs.get(var)
            if spec is None or tbs.variables[var].is_neutralized:
                continue
            try:
                set_input(sim, world, var, per, vals)
                applied.append((var, per))
            except Exception:  # noqa: BLE001,S112
                continue
        # the same inputs, written into the document per entity instance
        written = []
        for var, per in applied:
            spec = world.var_specs[var]
            pop = sim.populations[spec["entity"]]
            arr = sim.get_array(var, per)
            if arr is None:
                continue
            plural = pop.entity.plural
            n_written = 0
            for idx, iid in enumerate(pop.ids):
                iid = str(iid)
                if iid not in doc.get(plural, {}):
                    continue  # automatically created group: cannot carry inputs in the document
                x = arr[idx]
                val = _yaml_value(world, spec, arr, idx)
                # (a year written without quotes is read back as an integer key by YAML)
                key = int(per) if (len(per) == 4 and per.isdigit() and (len(var) + int(per)) % 2) else per
                doc[plural][iid].setdefault(var, {})[key] = val
                n_written += 1
            if n_written:
                # every instance declared: the input is what was given; some created
                # automatically: what they hold is the builder's business (C12, n/a)
                written.append((var, per, arr.copy() if n_written == pop.count else None))
        # The harness's own simulation: the structure from the builder, the inputs the
        # document carries given through Simulation.set_input (shorter periods first, as
        # the builder does) - the runner reads them from the document instead.
        try:
            # (a document the builder itself refuses - e.g. inputs for a group kind some
            # of whose instances are created automatically - decides nothing: C12, n/a)
            probe = SimulationBuilder()
            probe.set_default_period(t["period"])
            probed = probe.build_from_dict(tbs, copy.deepcopy(doc))
            written = [(var, per, given if given is not None else probed.get_array(var, per)) for var, per, given in written]
            written = [w for w in written if w[2] is not None]
        except Exception:  # noqa: BLE001
            return None
        builder = SimulationBuilder()
        builder.set_default_period(t["period"])
        try:
            sim = builder.build_from_dict(tbs, copy.deepcopy(t["situation"]))
            for var, per, given in sorted(written, key=lambda w: periods.key_period_size(periods.period(w[1]))):
                sim.set_input(var, per, given)
        except Exception:  # noqa: BLE001
            return None
    output = {}
    should_pass = True
    details = []
    done = set()
    for o in t["outputs"]:
        var = o["var"]
        if var not in tbs.variables or var in done:
            continue  # one expectation per variable (a second one would overwrite or contradict it)
        done.add(var)
        v = tbs.variables[var]
        spec = world.var_specs.get(var) or {"type": {"float": "float", "int": "int", "bool": "bool"}[v.value_type.__name__], "unit": str(v.definition_period), "entity": v.entity.key, "formulas": {}}
        per = o.get("extra") or unit_period(spec, t["period"])
        explicit = o.get("with_period") or per != t["period"] or bool(o.get("extra"))
        try:
            with warnings.catch_warnings():
                warnings.simplefilter("ignore")
                arr = sim.calculate(var, per)
        except Exception:  # noqa: BLE001,S112
            continue
        pop = sim.populations[spec["entity"]]
        n = pop.count
        if spec["type"] == "enum":
            actual = [str(x) for x in arr.decode_to_str()]
        else:
            actual = [render(spec, arr[i]) for i in range(n)]
        margin = t["margin"]
        default_margin = margin[1] if margin else None
        if margin and len(margin) > 2:
            # margins stated per variable, with a default for the others
            margin = [margin[0], margin[2].get(var, margin[1])]
        exp, ok_all = [], True
        undecidable = False
        target = o.get("sign", 1)
        bad_index = (len(details) + len(var)) % n
        for i in range(n):
            place = o["place"]
            if place in ("beyond", "just_beyond") and i != bad_index:
                place = "at"  # one entity off is enough to fail
            e, ok = place_value(spec, actual[i], place, margin, target, default_margin)
            if ok is None:
                undecidable = True
                break
            if e is None and ok is False:
                e = different(spec, world, actual[i])
            exp.append(e)
            ok_all = ok_all and ok
        if undecidable:
            continue
        exp = [_plain(x) for x in exp]
        second = None
        if o.get("also") and not o.get("extra") and o["also"]["period"] != per:
            try:
                with warnings.catch_warnings():
                    warnings.simplefilter("ignore")
                    arr2 = sim.calculate(var, o["also"]["period"])
                actual2 = [str(x) for x in arr2.decode_to_str()] if spec["type"] == "enum" else [render(spec, arr2[i]) for i in range(n)]
                exp2, ok2 = [], True
                for i in range(n):
                    place = o["also"]["place"]
                    if place == "beyond" and i != bad_index:
                        place = "at"
                    e, ok = place_value(spec, actual2[i], place, margin, target, default_margin)
                    if ok is None:
                        raise ValueError("undecidable")
                    if e is None and ok is False:
                        e = different(spec, world, actual2[i])
                    exp2.append(e)
                    ok2 = ok2 and ok
                second = (o["also"]["period"], [_plain(x) for x in exp2], ok2)
                explicit = True
            except Exception:  # noqa: BLE001
                second = None

        def with_periods(x, i=None):
            if not explicit:
                return x
            out = {per: x}
            if second is not None:
                out[second[0]] = second[1] if i is None else second[1][i]
            return out

        layout = o["layout"]
        if layout == "instance":
            ids = [str(i) for i in pop.ids]
            declared = [i for i in ids if i in doc.get(pop.entity.plural, {})]
            if not declared:
                layout = "variable"
            else:
                # only declared instances can be named; verdict follows the named ones
                idx = [ids.index(i) for i in declared]
                if o["place"] in ("beyond", "just_beyond") and bad_index not in idx:
                    ok_all = True
                if second is not None and not second[2] and o["also"]["place"] == "beyond" and bad_index not in idx:
                    second = (second[0], second[1], True)
                for i in idx:
                    output.setdefault(pop.entity.plural, {}).setdefault(ids[i], {})[var] = with_periods(exp[i], i)
        if layout in ("variable", "entity"):
            if n > 1:
                val = with_periods(exp)
            else:
                val = with_periods(exp[0], 0)
            if layout == "entity":
                output.setdefault(pop.entity.key, {})[var] = val
            else:
                output[var] = val
        should_pass = should_pass and ok_all
        details.append({"var": var, "type": spec["type"], "layout": layout, "place": o["place"], "period": per, "actual": [str(a) for a in actual], "expected": [str(e) for e in exp], "ok": ok_all})
        if second is not None:
            should_pass = should_pass and second[2]
            details.append({"var": var, "type": spec["type"], "layout": layout, "place": o["also"]["place"], "period": second[0], "actual": [str(a) for a in actual2],
                            "expected": [str(e) for e in second[1]], "ok": second[2], "second_period": True})
    if not output:
        return None
    item = {"name": t["name"], "period": t["period"], "input": doc, "output": output}
    if t["margin"]:
        mg = t["margin"]
        item["absolute_error_margin" if mg[0] == "abs" else "relative_error_margin"] = (
            mg[1] if len(mg) == 2 else {"default": mg[1], **{k: v for k, v in mg[2].items()}}
        )
    if t["reforms"]:
        item["reforms"] = t["reforms"] if len(t["reforms"]) > 1 else t["reforms"][0]
    if t["extensions"]:
        item["extensions"] = t["extensions"] if len(t["extensions"]) > 1 else t["extensions"][0]
    return item, should_pass, details


def _plain(x):
    if isinstance(x, (numpy.floating,)):
        return float(x)
    if isinstance(x, (numpy.integer,)):
        return int(x)
    if isinstance(x, datetime.date):
        return x.isoformat()
    return x


def _yaml_value(world, spec, arr, idx):
    if spec["type"] == "enum":
        return str(arr.decode_to_str()[idx])
    return _plain(render(spec, arr[idx]))


@contextlib.contextmanager
def quiet_fds():
    """pytest writes its report to fd 1/2: keep the worker's JSON-lines channel clean."""
    import sys

    sys.stdout.flush()
    sys.stderr.flush()
    saved = os.dup(1), os.dup(2)
    devnull = os.open(os.devnull, os.O_WRONLY)
    try:
        os.dup2(devnull, 1)
        os.dup2(devnull, 2)
        yield
    finally:
        sys.stdout.flush()
        sys.stderr.flush()
        os.dup2(saved[0], 1)
        os.dup2(saved[1], 2)
        for fd in (*saved, devnull):
            os.close(fd)


LOG_FILES = ("performance_graph.html", "performance_table.csv", "aggregated_performance_table.csv")


def run_file(tbs, items, path, options=None):
    """One run_tests call, in a working directory of its own; verdicts by position
    from the junit report."""
    from openfisca_core.tools.test_runner import run_tests

    from ..ctx import CTX

    CTX.begin()
    with open(path, "w") as f:
        yaml.safe_dump(items, f, default_flow_style=False, sort_keys=False, allow_unicode=True)
    junit = path + ".xml"
    old = os.environ.get("PYTEST_ADDOPTS")
    os.environ["PYTEST_ADDOPTS"] = f"-p no:cacheprovider -q --junitxml={junit} -o junit_family=xunit1"
    options = dict(options or {})
    blocked = options.pop("blocked", False)
    cwd = os.getcwd()
    work = path + ".cwd"
    os.makedirs(work)
    if blocked:
        for name in LOG_FILES:
            os.makedirs(os.path.join(work, name))
    try:
        os.chdir(work)
        with quiet_fds(), warnings.catch_warnings():
            warnings.simplefilter("ignore")
            run_tests(tbs, path, options)
    finally:
        os.chdir(cwd)
        shutil.rmtree(work, ignore_errors=True)
        if old is None:
            os.environ.pop("PYTEST_ADDOPTS", None)
        else:
            os.environ["PYTEST_ADDOPTS"] = old
    verdicts = []
    for tc in ET.parse(junit).getroot().iter("testcase"):
        bad = [ch for ch in tc if ch.tag in ("failure", "error")]
        verdicts.append(("pass", "") if not bad else (bad[0].tag, (bad[0].get("message") or "")[:160]))
    return verdicts


def system_for(world: World, base, t):
    """The system the runner will use for this test (harness side, own instances)."""
    tbs = base.clone()
    for r in t["reforms"]:
        tbs = tbs.apply_reform(r)
    for e in t["extensions"]:
        if e != NO_SUCH_EXTENSION:  # (expectations are written against what does load)
            tbs.load_extension(e)
    return tbs


def run_yaml(scn) -> Result:
    from dsim.yaml_pkg import current

    res = Result()
    H = History()
    world = World(scn["world"])
    os.makedirs(SCRATCH, exist_ok=True)
    from .. import seams

    env = seams.Env(ids=seams.SimId())  # S6: the runner keys its system cache by id(baseline)
    env.install()
    try:
        current.ENT = world.ent
        # one scenario = one pytest session of a fresh process: the runner's
        # process-wide system cache (keyed by id(baseline), S6) starts empty, and
        # the baseline stays alive for the whole session so its id cannot be reused
        from openfisca_core.tools import test_runner

        test_runner._tax_benefit_system_cache.clear()
        base = world.make_system()       # served to the runner
        ref_base = world.make_system()   # the harness's own
        built = []
        for t in scn["tests"]:
            try:
                tbs = system_for(world, ref_base, t)
                b = build_test(world, tbs, t)
            except Exception:  # noqa: BLE001
                b = None
            if b is not None:
                built.append(b)
        if len(built) < 2:
            res.discarded = "nothing decidable"
            return res
        names = [b[0]["name"] for b in built]
        want = {b[0]["name"]: b[1] for b in built}
        for t in scn["tests"]:
            if t.get("unloadable") and t["name"] in want:
                want[t["name"]] = False  # a test whose declared extension cannot be loaded cannot pass
                res.count("probe:test_declares_an_extension_that_cannot_be_loaded")
        by_name = {b[0]["name"]: b for b in built}
        seen = {}
        for oi, order in enumerate(scn["orders"]):
            seq = [by_name[scn["tests"][i]["name"]] for i in order if i < len(scn["tests"]) and scn["tests"][i]["name"] in by_name]
            items = [copy.deepcopy(b[0]) for b in seq]
            opts = (scn.get("run_options") or [{}, {}])[oi] if oi < len(scn.get("run_options") or []) else {}
            blocked = bool(opts.get("blocked"))
            for k in opts:
                res.count(f"probe:runner_option_{k}")
            verdicts = run_file(base, items, os.path.join(SCRATCH, f"tests_{oi}.yaml"), opts)
            res.count("steps", len(items))
            if len(verdicts) != len(items):
                res.violate("C20.verdict", oi, what="the runner did not report one verdict per test", tests=len(items), verdicts=len(verdicts))
                break
            H.add("Y", "run_tests", [b[0]["name"] for b in seq], [v[0] for v in verdicts])
            for b, (verdict, msg) in zip(seq, verdicts):
                name = b[0]["name"]
                res.count("clause:C20.verdict")
                for d in b[2]:
                    res.count(f"probe:yaml_{d['type']}_{d['layout']}")
                passed = verdict == "pass"
                if blocked:
                    # the log cannot be written: a test may fail for that reason alone,
                    # but a test whose outputs are off must not pass
                    res.count("fault:log_file_cannot_be_written")
                    if passed and not want[name]:
                        res.violate("C20.verdict", oi, test=name, expected_verdict="fail", verdict=verdict, message=msg,
                                    what="a test whose outputs are beyond the margin passes when its log file cannot be written", options=opts)
                        break
                    continue
                if passed != want[name]:
                    worst = next((d for d in b[2] if not d["ok"]), b[2][0])
                    res.violate("C20.verdict", oi, test=name, expected_verdict="pass" if want[name] else "fail", verdict=verdict, message=msg,
                                types=sorted({d["type"] for d in b[2]}), layouts=sorted({d["layout"] for d in b[2]}), outputs=b[2][:3],
                                margin=next((t["margin"] for t in scn["tests"] if t["name"] == name), None),
                                reforms=b[0].get("reforms"), extensions=b[0].get("extensions"))
                    break
                res.count("clause:C20.order")
                if name in seen and seen[name] != passed:
                    res.violate("C20.order", oi, test=name, first=seen[name], now=passed, message=msg,
                                reforms=b[0].get("reforms"), extensions=b[0].get("extensions"), position=[b2[0]["name"] for b2 in seq].index(name))
                    break
                seen.setdefault(name, passed)
            if res.violations:
                break
        n_pass = sum(1 for v in want.values() if v)
        res.nontrivial = len(built) >= 4 and 0 < n_pass < len(built)
        res.mark("interleavings", digest(scn["orders"]))
        res.count("executions")
        res.events = H.events
        res.digest = H.digest()
        return res
    finally:
        seams.Env.uninstall()
        world.close()
        shutil.rmtree(SCRATCH, ignore_errors=True)
