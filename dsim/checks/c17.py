"""C17 — tracing and storage settings never change results.

DESIGN 4.7.  One generated rule system and situation, run once in the plain
configuration (reference) and then under configurations drawn from
{trace} x {memory configuration} x {blacklist + opt-out} x memory profile x
clock profile, with finalizers delivered at scheduled steps.
"""

from __future__ import annotations

import gc
import random

from .. import seams
from ..compile import World
from ..ctx import CTX, RunTooBig
from ..history import History, canon, canon_outcome, digest
from ..rng import Streams, chance, pick, weighted, steps
from ..sim import apply_op, form_of, build_sim, locations, readable, stack_state, watch_calls
from ..world import gen_inputs, gen_request, gen_situation, gen_value, gen_world, wide_knob
from . import Result

PROPERTY = "C17"
LEVEL = "exploration"
HASH_FREE = False
RULE = (
    "scenario = generated rule system (all six value types, every definition period; acyclic or spiral) + "
    "situation + inputs + 4-10 requests, run in the plain configuration and in 3-6 configurations drawn from "
    "{trace on/off/toggled} x {memory configuration: threshold 0..1, priority set, drop set} x {blacklist+opt-out} "
    "x memory-pressure profile x clock profile x finalizer steps (spiral worlds: only configurations that keep "
    "every value cached somewhere); some runs sweep all 2^5 on/off choices. evaluations = configuration runs; "
    "non-trivial = the configuration differs from plain and at least one formula ran; distinct = distinct "
    "(scenario, configuration) digests."
)
COMPONENTS = {
    "real": ["Simulation", "Holder", "InMemoryStorage", "OnDiskStorage", "SimpleTracer", "FullTracer", "FlatTrace", "TracingParameterNodeAtInstant", "MemoryConfig", "numpy .npy codec"],
    "stub": ["psutil (SimMem)", "file system (SimFS)", "wall clock (SimClock)", "finalizer delivery (gc.disable + FINALIZE)", "formula bodies (generated, instrumented)"],
}

def enclosing(text: str) -> list:
    """Calendar years / months in which the period starts or ends (own calendar)."""
    import datetime

    try:
        if "-W" in text:
            bits = text.split("-")
            y, w = int(bits[0]), int(bits[1][1:])
            first = datetime.date.fromisocalendar(y, w, int(bits[2]) if len(bits) > 2 else 1)
            last = first if len(bits) > 2 else first + datetime.timedelta(days=6)
            return sorted({str(first.year), str(last.year), f"{first.year}-{first.month:02d}", f"{last.year}-{last.month:02d}"})
        if text.startswith("year:") and text.count(":") == 1:
            # a rolling year: starts in one calendar year, ends in the next
            y, m = int(text[5:9]), int(text[10:12])
            return sorted({str(y), str(y + 1), f"{y:04d}-{m:02d}"}) if m > 1 else [str(y)]
        bits = text.split("-")
        if len(bits) == 1 and bits[0].isdigit():
            return [text]
        if len(bits) == 2:
            return [bits[0], text]
        if len(bits) == 3:
            return [bits[0], f"{bits[0]}-{bits[1]}"]
    except ValueError:
        pass
    return ["2017", "2018", "2019", "2020", "2018-12", "2019-01", "2018-01"]


UNITS = [("month", 50), ("year", 22), ("eternity", 8), ("day", 10), ("week", 6), ("weekday", 4)]


def gen_config(rng: random.Random, names, profile: str, force=None, caching_only=None) -> dict:
    """force: a tuple of 5 booleans (trace, memory, priority, drop, blacklist) for sweeps."""
    if caching_only is None:
        caching_only = profile != "acyclic"
    if force is None:
        force = (chance(rng, 0.5), chance(rng, 0.6), chance(rng, 0.4), chance(rng, 0.35), chance(rng, 0.35))
    trace, memory, priority, drop, black = force
    cfg = {"trace": trace}
    if trace and chance(rng, 0.25):
        cfg["trace_from"] = rng.randint(1, 3)  # toggled on between requests
    if memory:
        cfg["memory"] = {
            "max": pick(rng, [0.0, 0.3, 0.5, 0.9, 1.0]),
            "priority": [n for n in names if chance(rng, 0.3)] if priority else [],
            "drop": [n for n in names if chance(rng, 0.3)] if (drop and not caching_only) else [],
        }
        cfg["mem"] = pick(rng, ["high", "high", "flap", "edge", "low", "rising"])
        cfg["mem_seed"] = rng.randrange(1 << 30)
    if black and not caching_only:
        cfg["blacklist"] = [n for n in names if chance(rng, 0.4)]
        cfg["opt_out"] = True
    cfg["clock"] = pick(rng, ["steady", "stall", "jump+", "jump-", "random"])
    cfg["clock_seed"] = rng.randrange(1 << 30)
    cfg["finalize_at"] = sorted(rng.sample(range(10), rng.randint(0, 2)))
    cfg["listdir_seed"] = rng.randrange(1 << 30)
    return cfg


def generate(seed: int, tier: str) -> dict:
    st = Streams(seed)
    wr = st["world"]
    profile = weighted(wr, [("acyclic", 7), ("spiral", 3)])
    world = gen_world(
        wr,
        discipline=profile,
        n_vars=wr.randint(4, 10 if tier == "quick" else 16),
        max_depth=2,
        units=UNITS if profile == "acyclic" else None,
        wide=wide_knob(wr, tier, 0.15),
    )
    ir = st["inputs"]
    situation = gen_situation(ir, world, max_persons=5)
    inputs = gen_inputs(ir, world, p=0.45)
    orr = st["ops"]
    ops = []
    # Input changes in mid-history (a corrected input, a deletion) do not invalidate
    # what was computed from the old input; a run that does not cache recomputes it.
    # Histories that change inputs are therefore compared under cache-preserving
    # configurations only (as spiral worlds are).
    changes_inputs = chance(orr, 0.3)
    for _ in range(steps(orr, 4, 8 if tier == "quick" else 12)):
        r0 = orr.random() if changes_inputs else 1.0
        if inputs and r0 < 0.14:
            # an input corrected later: same variable and period, another value - under
            # a memory configuration the two writes may meet different memory pressure
            i = pick(orr, inputs)
            spec = next(v for v in world["variables"] if v["name"] == i[0])
            ops.append({"do": ["set_input", i[0], i[1], [gen_value(orr, spec, world) for _ in range(orr.randint(1, 3))]]})
            continue
        if inputs and r0 < 0.2:
            i = pick(orr, inputs)
            r1 = orr.random()
            if r1 < 0.4 or i[1] == "ETERNITY":
                ops.append({"do": ["delete_arrays", i[0]]})
            elif r1 < 0.7:
                ops.append({"do": ["delete_arrays", i[0], i[1]]})
            else:
                # a calendar year or month: what is stored *within* it goes, what merely
                # starts or ends in it (a week straddling two years, a rolling year) stays
                ops.append({"do": ["delete_arrays", i[0], pick(orr, enclosing(i[1]))]})
            continue
        if inputs and chance(orr, 0.15):
            i = pick(orr, inputs)
            if world_unit(world, i[0]) != "eternity" or i[1] != "ETERNITY":
                ops.append({"do": ["get_array", i[0], i[1]]})
                continue
        ops.append({"do": gen_request(orr, world)})
    if changes_inputs and chance(orr, 0.5):
        # make sure some input lies on a period that belongs to two calendar years (a week
        # around New Year, a rolling year), when a variable can hold one
        cands = [v for v in world["variables"] if v["unit"] in ("week", "year")]
        if cands:
            v = pick(orr, cands)
            per = pick(orr, ["2019-W01", "2020-W01", "2015-W53", "2020-W53", "2026-W01"] if v["unit"] == "week" else ["year:2018-03", "year:2017-07", "year:2018-12"])
            if not any(i[0] == v["name"] and i[1] == per for i in inputs):
                inputs.append([v["name"], per, [gen_value(orr, v, world) for _ in range(orr.randint(1, 3))]])
    if changes_inputs and inputs and chance(orr, 0.4):
        # corrected, then withdrawn, then looked at again: the two writes may have met
        # different memory pressure (one copy in each store)
        i = pick(orr, inputs)
        if i[1] != "ETERNITY":
            spec = next(v for v in world["variables"] if v["name"] == i[0])
            trio = [{"do": ["set_input", i[0], i[1], [gen_value(orr, spec, world) for _ in range(orr.randint(1, 3))]]},
                    {"do": ["delete_arrays", i[0], i[1]]}, {"do": ["get_array", i[0], i[1]]}]
            at = sorted(orr.randrange(len(ops) + 1) for _ in range(3))
            for k, op in zip(reversed(at), reversed(trio)):
                ops.insert(k, op)
    if changes_inputs and chance(orr, 0.12):
        # a long run of revisions of one monthly variable: each month in turn is withdrawn
        # and given again (a survey corrected month by month), then read back
        cands = [v for v in world["variables"] if v["unit"] == "month" and not v["formulas"] and not v.get("set_input") and not v.get("end")]
        if cands:
            v = pick(orr, cands)
            months = [f"{y}-{m:02d}" for y in (2017, 2018) for m in range(1, 13)][: orr.randint(17, 22)]
            storm = []
            for per in months:
                if not any(i[0] == v["name"] and i[1] == per for i in inputs):
                    inputs.append([v["name"], per, [gen_value(orr, v, world) for _ in range(orr.randint(1, 3))]])
            for per in months:
                storm.append({"do": ["delete_arrays", v["name"], per]})
                storm.append({"do": ["set_input", v["name"], per, [gen_value(orr, v, world) for _ in range(orr.randint(1, 3))]]})
            storm += [{"do": ["get_array", v["name"], per]} for per in months[:4]]
            k = orr.randrange(len(ops) + 1)
            ops[k:k] = storm
    straddlers = [i for i in inputs if len({e for e in enclosing(i[1]) if len(e) == 4}) == 2]
    if changes_inputs and straddlers and chance(orr, 0.7):
        # an input on a week that belongs to two calendar years: deleting either year
        # leaves it alone (it is not *within* that year)
        i = pick(orr, straddlers)
        k = orr.randrange(len(ops) + 1)
        ops[k:k] = [{"do": ["delete_arrays", i[0], pick(orr, [e for e in enclosing(i[1]) if len(e) == 4])]}, {"do": ["get_array", i[0], i[1]]}]
    fr = st["faults"]
    if profile == "acyclic" and chance(fr, 0.3):
        k = fr.randrange(len(ops))
        if ops[k]["do"][0].startswith("calculate"):
            ops[k]["fault"] = {"site": fr.randint(1, 6)}
    kr = st["knobs"]
    names = [v["name"] for v in world["variables"]]
    knobs = {"max_spiral_loops": kr.randint(1, 3)}
    if chance(kr, 0.08 if tier == "quick" else 0.15):
        configs = [
            gen_config(kr, names, profile, force=tuple(bool(m >> b & 1) for b in range(5)), caching_only=True if changes_inputs else None)
            for m in range(1, 32)
        ]
    else:
        configs = [gen_config(kr, names, profile, caching_only=True if changes_inputs else None) for _ in range(kr.randint(3, 6))]
    return {
        "format": 1,
        "property": PROPERTY,
        "profile": profile,
        "seed": seed,
        "world": world,
        "situation": situation,
        "knobs": knobs,
        "inputs": inputs,
        "ops": ops,
        "configs": configs,
    }


def world_unit(world, name):
    return next(v["unit"] for v in world["variables"] if v["name"] == name)


# --------------------------------------------------------------------------- #


def _env(cfg) -> seams.Env:
    clock = seams.SimClock(cfg.get("clock", "steady"), cfg.get("clock_seed", 0))
    mem = cfg.get("memory")
    if not mem:
        return seams.Env(clock=clock)
    sched = seams.mem_schedule(cfg.get("mem", "high"), mem["max"] * 100.0, random.Random(cfg.get("mem_seed", 0)))
    return seams.Env(mem=seams.SimMem(sched), fs=seams.SimFS(listdir_seed=cfg.get("listdir_seed", 0)), clock=clock)


def trace_nodes_match(tnode, hnode, path, out):
    """tracer node vs harness call node: same (variable, period), same children in
    the same order, value equal to what the caller received."""
    if tnode.name != hnode["name"] or str(tnode.period) != hnode["period"]:
        out.append({"at": path, "tracer": f"{tnode.name}<{tnode.period}>", "harness": f"{hnode['name']}<{hnode['period']}>"})
        return
    expected = None if hnode["failed"] else hnode["value"]
    if canon(tnode.value) != canon(expected):
        out.append({"at": path, "node": f"{tnode.name}<{tnode.period}>", "tracer_value": canon(tnode.value), "returned": canon(expected)})
        return
    if len(tnode.children) != len(hnode["children"]):
        out.append({
            "at": path,
            "node": f"{tnode.name}<{tnode.period}>",
            "tracer_children": [f"{c.name}<{c.period}>" for c in tnode.children],
            "harness_children": [f"{c['name']}<{c['period']}>" for c in hnode["children"]],
        })
        return
    # parameter reads recorded under the node = those the formula logged
    frame = hnode.get("frame")
    if frame is not None:
        exp = {}
        for path_, instant, value in frame.params:
            if isinstance(value, (float, int, bool, type(None), list)):
                exp[f"{path_}<{_instant(instant)}>"] = value
        # a leaf directly under the root is recorded as ".name" (the root's name is
        # empty); the statement does not constrain how parameters are named
        got = {f"{p.name.lstrip('.')}<{p.period}>": p.value for p in tnode.parameters}
        if canon(exp) != canon(got):
            out.append({"at": path, "node": f"{tnode.name}<{tnode.period}>", "tracer_parameters": canon(got), "formula_parameters": canon(exp)})
            return
    for i, (tc, hc) in enumerate(zip(tnode.children, hnode["children"])):
        trace_nodes_match(tc, hc, [*path, i], out)


def _instant(instant_text):
    from openfisca_core import periods

    try:
        return str(periods.period(instant_text).start)
    except Exception:  # noqa: BLE001
        return str(periods.instant(instant_text))


def first_nodes(roots):
    """First occurrence (pre-order) of every key in the harness call tree."""
    first = {}

    def walk(n):
        key = f"{n['name']}<{n['period']}>"
        first.setdefault(key, n)
        for c in n["children"]:
            walk(c)

    for r in roots:
        walk(r)
    return first


def run_config(scn, world: World, cfg: dict, res: Result, H: History, reference=None, reference_late=None):
    """Run the request sequence under one configuration; return the outcomes."""
    tbs = world.make_system()
    knobs = dict(scn["knobs"])
    for k in ("memory", "blacklist", "opt_out"):
        if cfg.get(k):
            knobs[k] = cfg[k]
    trace_from = cfg.get("trace_from", 0) if cfg.get("trace") else None
    if cfg.get("trace") and not trace_from:
        knobs["trace"] = True
    env = _env(cfg)
    outcomes = []
    with env:
        sim = build_sim(world, scn["situation"], knobs, scn["inputs"], tbs=tbs)
        calls = watch_calls(sim)
        held = set(readable(sim, env))  # inputs actually held before any request
        kept = []  # every array a request returned, looked at again at the end
        traced_since = 0 if knobs.get("trace") else None
        frames_total = 0
        for step, op in enumerate(scn["ops"]):
            if trace_from is not None and step == trace_from and traced_since is None:
                sim.trace = True
                traced_since = len(calls)
            if step in cfg.get("finalize_at", ()):
                gc.collect()  # FINALIZE: finalizers run when the scheduler says so
                res.count("fault:finalize")
            plan = None
            if op.get("fault"):
                plan = {op["fault"]["site"]: {"kind": "raise_any"}}
            out = apply_op(sim, world, op["do"], plan, form=None if reference is None else form_of(op["do"], step))
            kept.append(out[1] if out[0] == "ok" else None)
            if op["do"][0] == "set_input" and out[0] == "ok":
                held.add((op["do"][1], _pstr(op["do"][2])))
            elif op["do"][0] == "delete_arrays":
                held = {k for k in held if k[0] != op["do"][1]}
            frames_total += len(CTX.frames)
            fired = bool(CTX.fired)
            outcomes.append((canon_outcome(out), fired))
            st = stack_state(sim)
            H.add("cfg", op["do"][0], op["do"][1:], canon_outcome(out), st)
            res.count("steps")
            if fired:
                res.count("fault:formula_raises")
            res.mark("states", digest(sorted([list(k), v] for k, v in locations(sim).items())))

            # C17.stack ---------------------------------------------------------
            res.count("clause:C17.stack")
            if st["stack"] or st["cursor"] is not None:
                res.violate("C17.stack", step, op=op["do"], state=st, config=cfg)

            # C17.equal ---------------------------------------------------------
            if reference is not None:
                ref_out, ref_fired = reference[step]
                # (a configuration that keeps every value cached somewhere holds exactly what
                # the plain run holds: there get_array is comparable whatever it looks at)
                may_not_cache = bool((cfg.get("memory") or {}).get("drop") or cfg.get("blacklist") or cfg.get("opt_out"))
                observes_cache = may_not_cache and op["do"][0] == "get_array" and (op["do"][1], _pstr(op["do"][2])) not in held
                # get_array on something that is not a held input observes the cache
                # itself, which "do not cache" settings change by design
                if not fired and not ref_fired and not observes_cache:
                    res.count("clause:C17.equal")
                    if ref_out != canon_outcome(out):
                        res.violate("C17.equal", step, op=op["do"], expected=ref_out, got=canon_outcome(out), config=cfg)

        # C17.equal, late: the arrays the requests returned, looked at again now ----
        late = [canon(a) for a in kept]
        if reference is not None and reference_late is not None:
            res.count("clause:C17.equal.late")
            for step, (a, b) in enumerate(zip(late, reference_late)):
                if a != b and not outcomes[step][1] and not reference[step][1] and outcomes[step][0] == reference[step][0]:
                    res.violate("C17.equal", step, op=scn["ops"][step]["do"], what="an array returned earlier changed afterwards", expected=b, got=a, config=cfg)
                    break

        # C17.trace -------------------------------------------------------------
        if traced_since is not None:
            tracer = sim.tracer
            hroots = calls[traced_since:]
            res.count("clause:C17.trace")
            problems = []
            if len(tracer.trees) != len(hroots):
                problems.append({"roots": [len(tracer.trees), len(hroots)]})
            else:
                for i, (t, h) in enumerate(zip(tracer.trees, hroots)):
                    trace_nodes_match(t, h, [i], problems)
            if not problems:
                flat = tracer.get_flat_trace()
                first = first_nodes(hroots)
                if set(flat) != set(first):
                    problems.append({"flat_keys": sorted(set(flat) ^ set(first))[:6]})
                else:
                    for key, node in first.items():
                        deps = [f"{c['name']}<{c['period']}>" for c in node["children"]]
                        if flat[key]["dependencies"] != deps:
                            problems.append({"flat": key, "dependencies": flat[key]["dependencies"], "expected": deps})
                            break
                        expected = None if node["failed"] else node["value"]
                        if canon(flat[key]["value"]) != canon(expected):
                            problems.append({"flat": key, "value": canon(flat[key]["value"]), "expected": canon(expected)})
                            break
                try:
                    tracer.get_serialized_flat_trace()
                except Exception as e:  # noqa: BLE001
                    problems.append({"serialize": type(e).__name__})
            if problems:
                res.violate("C17.trace", len(scn["ops"]), problems=problems[:3], config=cfg)
        if env.mem is not None:
            res.count("mem_reads", env.mem.reads)
            res.count("fs_saves", env.fs.n["save"])
            res.count("fs_loads", env.fs.n["load"])
            if env.fs.n["save"]:
                res.count("probe:disk_put")
            if env.fs.n["load"]:
                res.count("probe:disk_get")
        res.count("clock_reads", env.clock.reads)
    return outcomes, frames_total, late


def _pstr(p):
    from openfisca_core import periods

    return str(periods.period(p))


def is_plain(cfg) -> bool:
    return not (cfg.get("trace") or cfg.get("memory") or cfg.get("blacklist") or cfg.get("opt_out"))


def run(scn) -> Result:
    res = Result()
    world = World(scn["world"])
    H = History()
    try:
        reference, frames, reference_late = run_config(scn, world, {"clock": "steady"}, res, H)
        res.count("executions")
        for cfg in scn["configs"]:
            n0 = len(H.events)
            sub = Result()
            _, f, _late = run_config(scn, world, cfg, sub, H, reference=reference, reference_late=reference_late)
            res.count("executions")
            for k, n in sub.stats.items():
                res.count(k, n)
            for k, s in sub.sets.items():
                res.sets.setdefault(k, set()).update(s)
            res.violations.extend(sub.violations)
            if not is_plain(cfg) and f:
                res.mark("nontrivial", digest([scn.get("seed"), cfg, H.events[n0:]]))
            res.mark("interleavings", digest(sorted(k for k in ("trace", "memory", "blacklist") if cfg.get(k)) + [cfg.get("mem"), cfg.get("clock")]))
            if res.violations:
                break
        res.nontrivial = bool(res.sets.get("nontrivial"))
        res.events = H.events
        res.digest = H.digest()
        return res
    except RunTooBig:
        res.discarded = "too big"
        res.violations = []
        return res
    finally:
        world.close()
        seams.Env.uninstall()


def to_replay(scn, violation):
    import copy

    out = copy.deepcopy(scn)
    cfg = violation.get("config")
    if cfg is not None:
        out["configs"] = [cfg]
    return out


def cand_config(scn):
    """Simplify the single remaining configuration."""
    import copy

    if len(scn["configs"]) != 1:
        for i in range(len(scn["configs"])):
            c = copy.deepcopy(scn)
            c["configs"] = [scn["configs"][i]]
            yield c
        return
    cfg = scn["configs"][0]
    for key in ("trace", "memory", "blacklist", "opt_out", "trace_from", "finalize_at"):
        if cfg.get(key):
            c = copy.deepcopy(scn)
            del c["configs"][0][key]
            yield c
    if cfg.get("memory"):
        for key in ("priority", "drop"):
            if cfg["memory"].get(key):
                c = copy.deepcopy(scn)
                c["configs"][0]["memory"][key] = []
                yield c
        if cfg.get("mem") not in ("high", "low"):
            for flat in ("high", "low"):
                c = copy.deepcopy(scn)
                c["configs"][0]["mem"] = flat
                yield c
    if cfg.get("clock") != "steady":
        c = copy.deepcopy(scn)
        c["configs"][0]["clock"] = "steady"
        yield c
    for k, op in enumerate(scn["ops"]):
        if op.get("fault"):
            c = copy.deepcopy(scn)
            del c["ops"][k]["fault"]
            yield c


extra_shrinkers = (cand_config,)
