"""C06 — a parameter's value at a date is its latest entry; edits touch only their span.
C07 — every way of reading parameters returns the tree's current values.

DESIGN 4.2 / 4.3.  Same parameter worlds; C06 is an op-by-op refinement check
against a small executable dated-list model, C07 interleaves readers (five
routes) with writers (the documented routes) and takes the tree itself, read at
the same step, as the specification.
"""

from __future__ import annotations

import copy
import os
import random
import shutil
import types

import numpy

from .. import paramworld as PW
from ..history import History, canon, digest
from ..rng import Streams, chance, pick, weighted, steps
from . import Result

from openfisca_core import periods
from openfisca_core.errors import ParameterNotFoundError
from openfisca_core.parameters import Parameter, ParameterNode
from openfisca_core.reforms import Reform
from openfisca_core.simulations import SimulationBuilder

SCRATCH = f"/dev/shm/dsim-{os.getpid()}"

COMPONENTS = {
    "real": ["Parameter (update, lookup)", "ParameterNode (dict and YAML-directory loaders)", "ParameterScale", "ParameterNodeAtInstant", "VectorialParameterNodeAtInstant", "VectorialAsofDateParameterNodeAtInstant", "TaxBenefitSystem.get_parameters_at_instant / load_parameters", "Reform.modify_parameters", "TracingParameterNodeAtInstant", "Simulation (formula parameter access)"],
    "stub": ["os.listdir of the parameter loader (seeded permutation over real files in /dev/shm)"],
}

# --------------------------------------------------------------------------- #
# shared: update ranges
# --------------------------------------------------------------------------- #

PERIOD_TEXTS = ["2012", "2015-03", "month:2014-11:4", "year:2013:2", "2016-02-29", "day:2015-03-17:10", "2010", "month:2018-01:12", "year:2011-06",
                # several months ending in a February, across a year boundary, one of the two years a leap year
                "month:2015-12:3", "month:2019-11:4", "month:2011-03:12", "month:2016-12:3", "month:2012-09:6", "year:2015-03", "year:2016-03"]


def gen_range(rng: random.Random, entry_dates, era=None) -> dict:
    """A range given as period, start/stop or open-ended start, with boundaries drawn
    from the existing entry dates +-1 day as well as at random."""

    def boundary():
        if entry_dates and chance(rng, 0.65):
            d = pick(rng, entry_dates)
            return PW.shift(d, pick(rng, [-1, 0, 0, 1])) if "0001-01-02" <= d <= "9998-12-30" else d
        return PW.rand_date(rng, era=era if chance(rng, 0.7) else None)

    kind = weighted(rng, [("period", 3), ("startstop", 4), ("start", 3)])
    if kind == "period":
        if entry_dates and chance(rng, 0.4):
            d = pick(rng, entry_dates)
            return {"period": pick(rng, [d[:4], d[:7], d, f"month:{d[:7]}:3", f"day:{d}:2"])}
        return {"period": pick(rng, PERIOD_TEXTS)}
    a = boundary()
    if kind == "start":
        return {"start": a}
    b = boundary()
    if b < a:
        a, b = b, a
    return {"start": a, "stop": b}


def date_form(d: str):
    """The same day in another of the forms a parameter accepts: the ISO text, an Instant,
    a datetime.date, the ISO week date, a day Period, and - for a first of January / of a
    month - the year as int or text, the month as text."""
    import datetime
    import zlib

    k = zlib.crc32(d.encode()) % 8
    day = datetime.date.fromisoformat(d)
    if k == 1:
        return periods.instant(d)
    if k == 2:
        return day
    if k == 3 and 1000 <= day.year <= 9000:
        y, w, wd = day.isocalendar()
        return f"{y:04d}-W{w:02d}-{wd}" if 1000 <= y else d
    if k == 4:
        return periods.period(d)
    if k == 5 and d.endswith("-01-01"):
        return int(d[:4]) if zlib.crc32(d.encode()) % 16 < 8 else d[:4]
    if k == 6 and d.endswith("-01"):
        return d[:7]
    return d


def range_bounds(rg: dict):
    if "period" in rg:
        return PW.period_bounds(rg["period"])
    return rg["start"], rg.get("stop")


def call_update(param, rg: dict, value) -> None:
    if "period" in rg:
        param.update(period=rg["period"], value=value)
    elif "stop" in rg:
        param.update(start=periods.instant(rg["start"]), stop=periods.instant(rg["stop"]), value=value)
    else:
        param.update(start=periods.instant(rg["start"]), value=value)


def get_param(root, path, by_attribute=False):
    """The parameter object at `path`: through the groups' `children` maps, or - the way
    rule writers reach it - by attribute (`parameters.g.p1`); the two are one tree."""
    node = root
    for part in path:
        if isinstance(part, int):
            node = node.brackets[part]
        elif by_attribute:
            node = getattr(node, part)
        else:
            node = node.children[part] if isinstance(node, ParameterNode) and part in node.children else getattr(node, part)
    return node


def all_leaves(tree):
    """[(path, values)] for plain leaves and for scale bracket leaves."""
    out = [(p, PW.spec_at(tree, p)["values"]) for p in PW.leaf_paths(tree)]
    for name, node in tree.items():
        if node["kind"] == "scale":
            for i, b in enumerate(node["brackets"]):
                for k, values in b.items():
                    out.append(((name, i, k), values))
    return out


# =========================================================================== #
# C06
# =========================================================================== #


def c06_generate(seed: int, tier: str) -> dict:
    st = Streams(seed)
    wr = st["world"]
    # era of the tree's entry dates and unbounded (infinite) values: per-scenario knobs
    era = weighted(st["era"], [(None, 8.5), ("ancient", 1.0), ("far", 0.5)])
    tree = PW.gen_tree(wr, era=era, p_inf=pick(st["era"], [0.0, 0.0, 0.0, 0.0, 0.0, 0.25]))
    leaves = all_leaves(tree)
    orr = st["ops"]
    dates = {tuple(p): sorted(d for d, v in vals if v != "expected") for p, vals in leaves}
    ops = []
    n_updates = steps(orr, 2, 8 if tier == "quick" else 16, factor=5)
    # a long history is the history of *one* parameter, mostly (yearly indexations ...)
    focus = pick(orr, leaves) if n_updates > 16 else None
    for _ in range(n_updates):
        path, _vals = focus if focus is not None and chance(orr, 0.85) else pick(orr, leaves)
        path = tuple(path)
        rg = gen_range(orr, dates[path], era)
        if path[-1] == "threshold":
            base = 100.0 * path[1]
            value = round(orr.uniform(base, base + 50), 2)
        elif chance(orr, 0.15) and path[0] not in ("zones", "nz", "asof"):
            value = None
        elif path[0] == "flags":
            value = chance(orr, 0.5)
        elif chance(orr, 0.3) and any(isinstance(v, float) for _d, v in _vals):
            # the very value the parameter already has somewhere in its history
            value = pick(orr, [v for _d, v in _vals if isinstance(v, float)])
        else:
            value = round(orr.uniform(0, 10), 2)
        ops.append({"actor": "W", "do": ["update", list(path), rg, value]})
        a, b = range_bounds(rg)
        dates[path] = sorted(set(dates[path]) | {a} | ({PW.shift(b, 1)} if b else set()))
    if chance(orr, 0.3):
        # a child offered under a name the group already has: refused (ValueError), the
        # caller carries on - and the group is as before
        plain = [tuple(p) for p, _ in leaves if len(p) >= 1 and not isinstance(p[-1], int) and p[0] not in ("sc", "sa", "sv") and "threshold" not in p and "rate" not in p]
        if plain:
            path = pick(orr, plain)
            ops.insert(orr.randrange(len(ops) + 1), {"actor": "W", "do": ["add_existing", list(path), PW.gen_leaf(orr)["values"]]})
    if chance(orr, 0.4):
        # a copy of the whole tree is taken mid-way (ParameterNode.clone) and both
        # copies go on being updated: each keeps following its own history
        k = orr.randrange(len(ops) + 1)
        for op in ops[k:]:
            op["side"] = orr.randrange(2)
        ops.insert(k, {"actor": "W", "do": ["clone"]})
    return {
        "format": 1,
        "property": "C06",
        "profile": "params",
        "seed": seed,
        "tree": tree,
        "load": pick(st["fs"], ["dict", "dir", "dir"]),
        "listdir_seed": st["fs"].randrange(1 << 30),
        "style_seed": st["fs"].randrange(1 << 30),
        "probe_seed": st["fs"].randrange(1 << 30),
        "ops": ops,
    }


def probe_dates(models, root, leaves, rng, extra=()):
    ds = set(extra)
    for path, _ in leaves:
        for d in models[tuple(path)].dates():
            ds.update((PW.shift(d, -1), d, PW.shift(d, 1)))
        try:
            for v in get_param(root, path).values_list:
                ds.update((PW.shift(v.instant_str, -1), v.instant_str, PW.shift(v.instant_str, 1)))
        except Exception:  # noqa: BLE001,S110
            pass
    for _ in range(4):
        ds.add(PW.rand_date(rng, 2005, 2022))
    return sorted(d for d in ds if "0001-01-02" <= d <= "9000-01-01")


def c06_check_all(res, step, root, tree, models, leaves, dates, what):
    """C06.value / C06.order / C06.group / C06.scale over every leaf at every probe date
    (after an update: every date for the parameter that was updated and for its own entry
    dates, a rotating third of the dates for the others - they were all looked at in full
    right after loading)."""
    all_dates = dates
    touched = tuple(what[1]) if isinstance(what, list) and len(what) > 1 and isinstance(what[1], list) else None
    for path, _ in leaves:
        path = tuple(path)
        dates = all_dates
        if step >= 0 and touched is not None and path != touched and len(all_dates) > 30:
            own = set(models[path].dates())
            dates = [d for k, d in enumerate(all_dates) if k % 3 == step % 3 or d in own]
        param = get_param(root, path, by_attribute=(len(dates) + len(path)) % 2 == 1)
        m = models[path]
        res.count("clause:C06.order")
        instants = [v.instant_str for v in param.values_list]
        if any(a <= b for a, b in zip(instants, instants[1:])):
            res.violate("C06.order", step, path=list(path), instants=instants, after=what)
            return
        for d in dates:
            res.count("clause:C06.value")
            got = param(date_form(d))
            if got != m.at(d):
                res.violate("C06.value", step, path=list(path), date=d, expected=m.at(d), got=got, after=what)
                return
    dates = all_dates
    # groups expose exactly the members defined at the date
    for gpath in (("g",), ("g", "h"), ("flags",), ()):
        node = get_param(root, gpath) if gpath else root
        spec = PW.spec_at(tree, gpath)
        for d in dates[:: max(1, len(dates) // 12)]:
            res.count("clause:C06.group")
            at = node(d)
            for name, child in spec["children"].items():
                exposed = name in at._children
                if child["kind"] == "leaf":
                    want = models[(*gpath, name)].at(d)
                    if exposed != (want is not None) or (exposed and at._children[name] != want):
                        res.violate("C06.group", step, group=list(gpath), member=name, date=d, expected=want, exposed=exposed, after=what)
                        return
                elif child["kind"] == "node" and not exposed:
                    res.violate("C06.group", step, group=list(gpath), member=name, date=d, what="sub-group not exposed", after=what)
                    return
            if gpath == ("flags",):
                # the same through a vector of member names: served when all of them are
                # defined at the date, refused otherwise
                names = sorted(spec["children"])
                undefined = [n for n in names if models[(*gpath, n)].at(d) is None]
                try:
                    served = [bool(x) for x in numpy.asarray(at[numpy.array(["f0", *names])]).tolist()]
                except Exception:  # noqa: BLE001
                    served = None
                want = None if undefined else [bool(models[(*gpath, n)].at(d)) for n in ["f0", *names]]
                if served != want:
                    res.violate("C06.group", step, group=list(gpath), date=d, what="vector of member names", undefined=undefined, expected=want, got=served, after=what)
                    return
    for name, node in tree.items():
        if node["kind"] != "scale":
            continue
        sc = get_param(root, (name,))
        for d in dates[:: max(1, len(dates) // 12)]:
            res.count("clause:C06.scale")
            want = []
            key = next(k for k in node["brackets"][0] if k != "threshold")  # rate | amount | average_rate
            for i in range(len(node["brackets"])):
                t, r = models[(name, i, "threshold")].at(d), models[(name, i, key)].at(d)
                if t is not None and r is not None:
                    want.append((t, r))
            want.sort()
            at = sc(d)
            res.count(f"probe:scale_of_{key}s" + ("_single" if node.get("type") else ""))
            # (at a date where no bracket defines an amount the scale comes back as an empty scale of rates)
            got = sorted(zip(at.thresholds, at.amounts if hasattr(at, "amounts") else at.rates))
            if [tuple(map(float, x)) for x in got] != [tuple(map(float, x)) for x in want]:
                res.violate("C06.scale", step, scale=name, date=d, expected=want, got=got, after=what)
                return


def c06_run(scn) -> Result:
    res = Result()
    H = History()
    tree = scn["tree"]
    os.makedirs(SCRATCH, exist_ok=True)
    try:
        try:
            root = PW.load_tree(tree, scn["load"], SCRATCH, scn["listdir_seed"], random.Random(scn["style_seed"]))
        except Exception as e:  # noqa: BLE001
            res.violate("C06.value", -1, what="loading a well-formed tree raised", error=type(e).__name__, detail=str(e)[:200], load=scn["load"])
            res.count("executions")
            res.digest = digest(["load-raised", type(e).__name__])
            return res
        leaves = all_leaves(tree)
        models = {tuple(p): PW.LeafModel(vals) for p, vals in leaves}
        prng = random.Random(scn["probe_seed"])
        dates = probe_dates(models, root, leaves, prng)
        c06_check_all(res, -1, root, tree, models, leaves, dates, "load")
        if scn["load"] == "dir":
            res.count("fault:listdir_permuted")
        H.add("L", "load", scn["load"], [canon(get_param(root, p)(d)) for p, _ in leaves[:6] for d in dates[:6]])
        sides = [(root, models)]
        for step, op in enumerate(scn["ops"]):
            if res.violations:
                break
            if op["do"][0] == "clone":
                if len(sides) == 1:
                    sides.append((root.clone(), copy.deepcopy(models)))
                    res.count("probe:tree_cloned_mid_way")
                    H.add("W", "clone", [])
                continue
            side = op.get("side", 0) % len(sides)
            root, models = sides[side]
            if op["do"][0] == "add_existing":
                _, path, values = op["do"]
                parent = get_param(root, path[:-1]) if len(path) > 1 else root
                res.count("probe:child_offered_under_a_taken_name")
                try:
                    parent.add_child(path[-1], Parameter(".".join(path), PW.leaf_data(values)))
                    outcome = "accepted"
                except ValueError:
                    outcome = "refused"
                H.add("W", "add_existing", [list(path)], outcome)
                if outcome == "refused":
                    c06_check_all(res, step, root, tree, models, leaves, probe_dates(models, root, leaves, prng), op["do"][:2])
                    continue
                res.violate("C06.group", step, op=op["do"][:2], what="a child offered under a name the group already has was not refused")
                break
            _, path, rg, value = op["do"]
            path = tuple(path)
            # (updates and reads reach the parameter by attribute half of the time)
            by_attr = (step + len(path)) % 2 == 1
            param = get_param(root, path, by_attr)
            m = models[path]
            a, b = range_bounds(rg)
            if b is not None and b < a:
                continue  # precondition start <= stop
            dates = probe_dates(models, root, leaves, prng, extra=[a, PW.shift(a, -1)] + ([b, PW.shift(b, 1)] if b else []))
            before = {d: param(d) for d in dates}
            other_before = {tuple(p): [get_param(root, p)(d) for d in dates[::5]] for p, _ in leaves if tuple(p) != path}
            try:
                call_update(param, rg, value)
            except Exception as e:  # noqa: BLE001
                res.violate("C06.span", step, op=op["do"], what="update raised", error=type(e).__name__)
                break
            m.update(a, b, value)
            res.count("steps")
            res.nontrivial = True
            # which boundary relation did this update exercise? (reach)
            res.count("probe:range_" + ("period" if "period" in rg else "startstop" if "stop" in rg else "open"))
            if b is not None and any(e[0] > b for e in m.entries):
                res.count("probe:right_overlap")
            # C06.span — straight from the statement
            res.count("clause:C06.span")
            for d in dates:
                got = param(d)
                inside = a <= d and (b is None or d <= b)
                want = value if inside else before[d]
                if got != want:
                    res.violate("C06.span", step, op=op["do"], date=d, inside=inside, expected=want, got=got)
                    break
            for p, vals in other_before.items():
                if [get_param(root, p)(d) for d in dates[::5]] != vals:
                    res.violate("C06.span", step, op=op["do"], what="another parameter changed", other=list(p))
                    break
            if not res.violations:
                c06_check_all(res, step, root, tree, models, leaves, dates, op["do"])
            for other, (oroot, omodels) in enumerate(sides):
                if other != side and not res.violations:
                    # the copy that was not updated still follows its own history
                    n0 = len(res.violations)
                    c06_check_all(res, step, oroot, tree, omodels, leaves, dates, op["do"])
                    for v in res.violations[n0:]:
                        v["what"] = "the copy that was not updated changed"
            H.add("W", "update", [side, *op["do"][1:]] if len(sides) > 1 else op["do"][1:], [canon(param(d)) for d in dates])
        res.mark("interleavings", digest([(tuple(o["do"][1]), sorted(o["do"][2]), o.get("side", 0)) if o["do"][0] == "update" else "clone" for o in scn["ops"]]))
        res.count("executions")
        res.events = H.events
        res.digest = H.digest()
        return res
    finally:
        shutil.rmtree(SCRATCH, ignore_errors=True)


# =========================================================================== #
# C07
# =========================================================================== #


def gen_mods(rng, tree, n=None, p_inf=0.0):
    leaves = [p for p in PW.leaf_paths(tree)]
    mods = []
    for _ in range(n or rng.randint(1, 3)):
        kind = weighted(rng, [("update", 7), ("bracket", 2), ("add_child", 1.5), ("replace_child", 1.5), ("add_existing", 1), ("merge", 1)])
        if kind == "bracket":
            # a bracket's rate or threshold edited in place (the number of brackets stays)
            i = rng.randrange(len(tree["sc"]["brackets"]))
            what = pick(rng, ["rate", "rate", "threshold"])
            vals = tree["sc"]["brackets"][i][what]
            dates = sorted(d for d, v in vals if v != "expected")
            value = round(rng.uniform(100.0 * i, 100.0 * i + 50), 2) if what == "threshold" else round(rng.uniform(0, 1), 2)
            mods.append(["update", ["sc", i, what], gen_range(rng, dates), value])
        elif kind == "update":
            path = pick(rng, leaves)
            dates = sorted(d for d, v in PW.spec_at(tree, path)["values"] if v != "expected")
            value = round(rng.uniform(0, 10), 2) if path[0] != "flags" else chance(rng, 0.5)
            if p_inf and path[0] != "flags" and chance(rng, p_inf):
                value = pick(rng, [float("inf"), float("-inf")])  # a ceiling or floor lifted
            mods.append(["update", list(path), gen_range(rng, dates), value])
        elif kind == "add_child":
            mods.append(["add_child", pick(rng, [[], ["g"], ["g", "h"]]), f"new{rng.randrange(1000)}", PW.gen_leaf(rng)])
        elif kind == "add_existing":
            # a child offered under a name that is taken: refused, the modifier carries on
            path = pick(rng, [p for p in leaves if p[0] in ("p0", "g", "zones")])
            mods.append(["add_existing", list(path), PW.gen_leaf(rng, always=True, allow_null=False)])
            dates = sorted(d for d, v in PW.spec_at(tree, path)["values"] if v != "expected")
            mods.append(["update", list(path), gen_range(rng, dates), round(rng.uniform(0, 10), 2)])
        elif kind == "merge":
            # a node of overrides merged into a group: new names are added, a taken name is
            # refused (ValueError) and the modifier carries on
            parent = pick(rng, [["g"], ["g", "h"], ["zones"]])
            taken = [p[-1] for p in leaves if list(p[:-1]) == parent]
            names = [f"mg{rng.randrange(1000)}"] + ([pick(rng, taken)] if taken else [])
            if chance(rng, 0.5):
                names.reverse()
            mods.append(["merge", parent, {n: PW.gen_leaf(rng, always=True, allow_null=False) for n in names}])
        else:
            path = pick(rng, [p for p in leaves if p[0] in ("p0", "g")])
            mods.append(["replace_child", list(path), PW.gen_leaf(rng)])
    return mods


def gen_read(rng, tree, systems, hot=None, pool=None, traced_bias=False):
    """hot: (path, dates) recently touched by a write — reads are biased to land there."""
    leaves = PW.leaf_paths(tree)
    sysid = pick(rng, systems)
    r = rng.random()
    if r < 0.6:
        if hot and chance(rng, 0.7):
            path, date = hot[0], pick(rng, hot[1])
        else:
            path = pick(rng, leaves)
            date = pick(rng, pool) if pool and chance(rng, 0.4) else PW.rand_date(rng)
        route = pick(rng, ["a", "a", "a_instant", "a_period", "a_year", "c", "d", "a_wd", "b_wd"] + ["d", "d", "d"] * traced_bias)
        if route == "a_year" and chance(rng, 0.7):
            date = date[:4] + "-01-01"
        return ["read", sysid, route, list(path), date]
    # a few instants per scenario are read again and again, on every system: what
    # one tree showed at an instant must not decide what another tree shows there
    date = pick(rng, pool) if pool and chance(rng, 0.7) else PW.rand_date(rng, 2005, 2021)
    if chance(rng, 0.2):
        # ... after which the reader may work on a copy of what it read (a reader's
        # own arithmetic: nobody else's reads may notice)
        return ["sread", sysid, pick(rng, ["a", "b"]), date, pick(rng, [None, None, "copy_rates", "copy_bracket", "copy_thresholds", "new_rates"])]
    kind = weighted(rng, [("str", 3), ("enum", 2), ("enumarray", 2), ("nested", 2), ("date", 4), ("flags", 2.5), ("rank", 2.5)])
    route = pick(rng, ["a", "a", "c", "d"])
    if kind == "date":
        keys = [PW.rand_date(rng, 2006, 2021) for _ in range(rng.randint(1, 5))]
        cuts = [n for n in tree["asof"]["children"] if n.startswith("after_")]
        if cuts and chance(rng, 0.6):
            c = pick(rng, cuts)[len("after_"):].replace("_", "-")
            keys.append(PW.shift(c, pick(rng, [-1, 0, 1])))
        return ["vread", sysid, route, "date", keys, date]
    if kind == "flags":
        # flags other than the first may be undefined at the date: the read must then fail
        keys = ["f0"] * chance(rng, 0.6) + [pick(rng, ["f0", "f1", "f2"]) for _ in range(rng.randint(1, 4))]
        return ["vread", sysid, pick(rng, ["a", "a", "c"]), "flags", keys, date]
    group = "nz" if kind == "nested" else "ranks" if kind == "rank" else "zones"
    names = sorted(tree[group]["children"])
    keys = [pick(rng, names) for _ in range(rng.randint(1, 5))]
    return ["vread", sysid, route, kind, keys, date]


def c07_generate(seed: int, tier: str) -> dict:
    st = Streams(seed)
    wr = st["world"]
    # unbounded (infinite) parameter values: a per-scenario knob
    p_inf = pick(st["era"], [0.0, 0.0, 0.0, 0.0, 0.3])
    tree = PW.gen_tree(wr, p_inf=p_inf)
    alt = {"T1": PW.gen_tree(wr, p_inf=p_inf)}
    # the alternative tree keeps the vectorisable groups' shapes
    for g in ("zones", "nz", "asof", "ranks"):
        alt["T1"][g] = copy.deepcopy(tree[g])
        for leaf in _leaves_of(alt["T1"][g]):
            leaf["values"] = [[d, (round(v + 1.5, 2) if isinstance(v, float) else v)] for d, v in leaf["values"]]
    orr = st["ops"]
    long_lived = chance(st["knobs"], 0.5)
    traced_bias = long_lived and chance(st["knobs"], 0.6)  # many traced formula reads in one simulation
    systems = ["S0"]
    ops = []
    hot = None
    recent_reads = []
    pool = [PW.rand_date(orr, 2009, 2020) for _ in range(3)]
    n_ops = steps(orr, 5, 12 if tier == "quick" else 24)
    for _ in range(n_ops):
        r = orr.random()
        if r < 0.22:
            mods = gen_mods(orr, tree, p_inf=p_inf)
            new = f"S{len(systems)}"
            read_first = []
            if chance(orr, 0.5):
                m0 = next((m for m in mods if m[0] == "update"), None)
                if m0:
                    a, b = range_bounds(m0[2])
                    read_first = [[m0[1], a]]
            ops.append({"actor": "W", "do": ["reform", new, pick(orr, systems), mods, read_first]})
            systems.append(new)
            hot = _hot(mods)
        elif r < 0.30 and len(systems) > 1:
            sid = pick(orr, systems[1:])
            mods = gen_mods(orr, tree, p_inf=p_inf)
            seen = [x for x in recent_reads if x[0] == sid]
            if seen and chance(orr, 0.7):
                # change, through the documented route, exactly what this system was
                # last *seen* to hold: the view at that instant was already read
                _, path, date = seen[-1]
                rg = pick(orr, [{"start": PW.shift(date, -3)}, {"start": PW.shift(date, -10), "stop": PW.shift(date, 10)}, {"start": date, "stop": date}])
                mods = [["update", list(path), rg, round(orr.uniform(0, 10), 2)], *mods[:1]]
            ops.append({"actor": "W", "do": ["modify_again", sid, mods]})
            hot = _hot(mods)
            if seen and mods[0][0] == "update" and tuple(mods[0][1]) == tuple(seen[-1][1]):
                hot = (tuple(seen[-1][1]), [seen[-1][2]])
        elif r < 0.36:
            ops.append({"actor": "W", "do": ["load_parameters", pick(orr, systems), pick(orr, ["T0", "T1"]), orr.randrange(1 << 30)]})
            hot = None
            if chance(orr, 0.4):
                # the system has a preprocess_parameters hook (a country package's way of
                # amending what was loaded): it looks at the system's own view at a date,
                # amends the loaded tree in place from that date on, and hands it back
                hpath = list(pick(orr, [("p0",), ("g", "p1"), ("g", "h", "p2")]))
                hdate = pick(orr, pool) if pool else PW.rand_date(orr)
                ops[-1]["do"].append({"read": [hpath, hdate], "update": [hpath, {"start": hdate}, round(orr.uniform(0, 10), 2)]})
                hot = (tuple(hpath), [hdate])
        else:
            rd = gen_read(orr, tree, systems, hot, pool, traced_bias)
            ops.append({"actor": pick(orr, ["R1", "R2"]), "do": rd})
            if rd[0] == "read":
                recent_reads.append((rd[1], tuple(rd[3]), rd[4]))
    if traced_bias and chance(orr, 0.6):
        # one simulation, tracing on: a formula reads a parameter at a date, the system's
        # parameters are reloaded, another formula reads the same parameter at the same date
        # - the trace must say what each of them read
        path = list(pick(orr, [("p0",), ("g", "p1"), ("g", "h", "p2")]))
        date = pick(orr, pool) if pool else PW.rand_date(orr)
        k = orr.randrange(len(ops) + 1)
        ops[k:k] = [{"actor": "R1", "do": ["read", "S0", "d", path, date]},
                    {"actor": "W", "do": ["load_parameters", "S0", pick(orr, ["T1", "T1", "T0"]), orr.randrange(1 << 30)]},
                    {"actor": "R2", "do": ["read", "S0", "d", path, date]}]
    return {
        "format": 1,
        "property": "C07",
        "profile": "params",
        "seed": seed,
        "tree": tree,
        "trees": alt,
        "load": pick(st["fs"], ["dict", "dir", "dir"]),
        "listdir_seed": st["fs"].randrange(1 << 30),
        "listdir_seed2": st["fs"].randrange(1 << 30),
        "style_seed": st["fs"].randrange(1 << 30),
        # formulas read through one long-lived simulation per (system, traced?) whose
        # cached result is deleted before each read - or through a new one each time
        "long_lived": long_lived,
        "ops": ops,
    }


def _leaves_of(node):
    if node["kind"] == "leaf":
        yield node
    elif node["kind"] == "node":
        for c in node["children"].values():
            yield from _leaves_of(c)


def _hot(mods):
    for m in mods:
        if m[0] == "update" and not any(isinstance(x, int) for x in m[1]):
            a, b = range_bounds(m[2])
            ds = [a, PW.shift(a, -1), PW.shift(a, 3)] + ([b, PW.shift(b, 1)] if b else [])
            return (tuple(m[1]), ds)
    return None


def apply_mods(parameters, mods):
    for m in mods:
        if m[0] == "update":
            call_update(get_param(parameters, m[1]), m[2], m[3])
        elif m[0] == "add_child":
            parent = get_param(parameters, m[1]) if m[1] else parameters
            if m[2] not in parent.children:
                parent.add_child(m[2], Parameter(f"{'.'.join(m[1])}.{m[2]}".lstrip("."), PW.leaf_data(m[3]["values"])))
        elif m[0] == "add_existing":
            parent = get_param(parameters, m[1][:-1]) if len(m[1]) > 1 else parameters
            try:
                parent.add_child(m[1][-1], Parameter(".".join(m[1]), PW.leaf_data(m[2]["values"])))
            except ValueError:
                pass
        elif m[0] == "merge":
            parent = get_param(parameters, m[1])
            other = ParameterNode(".".join(m[1]), data={n: PW.leaf_data(leaf["values"]) for n, leaf in m[2].items()})
            try:
                parent.merge(other)
            except ValueError:
                pass
        elif m[0] == "replace_child":
            parent = get_param(parameters, m[1][:-1]) if len(m[1]) > 1 else parameters
            child = Parameter(".".join(m[1]), PW.leaf_data(m[2]["values"]))
            parent.children[m[1][-1]] = child
            setattr(parent, m[1][-1], child)
    return parameters


def make_reform(base, mods, read_first, seen):
    def apply(self):
        for path, date in read_first:
            # the reform reads its own view before changing parameters
            try:
                node = self.get_parameters_at_instant(date)
                for part in path:
                    node = getattr(node, part)
                seen.append(node)
            except ParameterNotFoundError:
                seen.append(None)
        self.modify_parameters(lambda p: apply_mods(p, mods))

    cls = types.new_class("GeneratedReform", (Reform,), {}, lambda ns: ns.update({"apply": apply}))
    return cls(base)


def asof_child(tree_node, date_text):
    """Name of the child a date selects: `after_Y` with the greatest Y <= date, else `before_X`."""
    best = None
    before = None
    for name in tree_node.children:
        if name.startswith("after_"):
            y = name[len("after_"):].replace("_", "-")
            if y <= date_text and (best is None or y > best[0]):
                best = (y, name)
        elif name.startswith("before_"):
            before = name
    return best[1] if best else before


def read_scalar(system, route, path, date, res, keep=None, sid=None):
    """Returns ('val', x) | ('undef',) | ('exc', name)."""
    try:
        if route.startswith("a"):
            # the instant may be given as text, Instant, Period (its start counts) or,
            # on 1 January, as a bare year
            arg = date
            if route == "a_instant":
                arg = periods.instant(date)
            elif route == "a_period":
                arg = periods.period(f"day:{date}:3")
            elif route == "a_year" and date[5:] == "01-01":
                arg = int(date[:4])
            elif route == "a_wd":
                arg = PW.weekday_text(date)  # the day spelled as an ISO week date
            node = system.get_parameters_at_instant(arg)
            for part in path:
                node = getattr(node, part)
            return ("val", float(node))
        if route == "b_wd":
            # the parameter object itself, asked with the day spelled as an ISO week date
            got = PW.read_direct(system.parameters, path, PW.weekday_text(date))
            return ("undef",) if got is None else ("val", float(got))
        PW.CUR["path"] = tuple(path)
        sim = keep.get((sid, route)) if keep is not None else None
        var = "rp"
        if sim is not None and sim.tax_benefit_system is system:
            # two variables read in turn, so that the formula runs again, in the same simulation
            keep[sid, route, "n"] = keep.get((sid, route, "n"), 0) + 1
            var = ("rp", "rp2")[keep[sid, route, "n"] % 2]
            sim.delete_arrays(var)
            res.count("probe:formula_read_in_a_long_lived_simulation")
        else:
            sim = SimulationBuilder().build_default_simulation(system, count=2)
            sim.trace = route == "d"
            if keep is not None:
                keep[sid, route] = sim
                keep[sid, route, "seen"] = set()
        try:
            out = sim.calculate(var, date)
        finally:
            key = f"{var}<{periods.period(date)}>"
            first = keep is None or key not in keep[sid, route, "seen"]
            if keep is not None:
                keep[sid, route, "seen"].add(key)
        if route == "d":
            res.count("clause:C07.trace")
            accesses = list(sim.tracer.trees[-1].parameters)  # rp reads no variable: one node
            vals = [a.value for a in accesses if a.name.lstrip(".") == ".".join(path)]
            if len(vals) != 1 or numpy.float32(vals[0]) != out[0]:
                return ("trace-mismatch", [str(a.name) for a in accesses], [canon(a.value) for a in accesses], canon(out))
            if first:
                # ... and what the flat and serialised traces say this formula read (they
                # keep the first calculation of a variable at a period)
                for flat in (sim.tracer.get_flat_trace(), sim.tracer.get_serialized_flat_trace()):
                    said = [v for k, v in flat.get(key, {}).get("parameters", {}).items() if k.lstrip(".").startswith(".".join(path) + "<")]
                    if len(said) != 1 or said[0] is None or numpy.float32(said[0]) != out[0]:
                        return ("trace-mismatch", ["flat trace", key], [canon(x) for x in said], canon(out))
        return ("val32", out)
    except ParameterNotFoundError:
        return ("undef",)
    except Exception as e:  # noqa: BLE001
        return ("exc", type(e).__name__)


def run_c07(scn) -> Result:
    res = Result()
    H = History()
    tree = scn["tree"]
    os.makedirs(SCRATCH, exist_ok=True)
    trees = {"T0": tree, **scn.get("trees", {})}
    from .. import seams

    env = seams.Env(ids=seams.SimId())
    env.install()
    try:
        style = lambda: random.Random(scn["style_seed"])  # noqa: E731
        try:
            root = PW.load_tree(tree, scn["load"], SCRATCH, scn["listdir_seed"], style())
        except Exception as e:  # noqa: BLE001
            res.violate("C07.agree", -1, what="loading a well-formed tree raised", error=type(e).__name__, detail=str(e)[:200], load=scn["load"])
            res.count("executions")
            res.digest = digest(["load-raised", type(e).__name__])
            return res
        systems = {"S0": PW.make_system(root)}

        # C07.listing: same tree, two listings, identical reads through every route --------
        if scn["load"] == "dir":
            res.count("fault:listdir_permuted")
            res.count("clause:C07.listing")
            root2 = PW.load_tree(tree, "dir", SCRATCH, scn["listdir_seed2"], style())
            prng = random.Random(scn["style_seed"] + 1)
            for _ in range(6):
                d = PW.rand_date(prng, 2005, 2021)
                a, b = root(d), root2(d)
                keys = numpy.array([PW.rand_date(prng, 2006, 2021) for _ in range(4)], dtype="datetime64[D]")
                try:
                    va, vb = a.asof[keys], b.asof[keys]
                except Exception as e:  # noqa: BLE001
                    res.violate("C07.listing", -1, what="date-vector read raised", error=type(e).__name__)
                    break
                if canon(va) != canon(vb):
                    res.violate("C07.listing", -1, what="date-vector read depends on the directory listing order", date=d,
                                keys=keys.astype(str).tolist(), first=canon(va), second=canon(vb),
                                order_first=list(a.asof._children), order_second=list(b.asof._children))
                    break
                names = sorted(tree["zones"]["children"])
                kz = numpy.array([pick(prng, names) for _ in range(4)])
                if canon(a.zones[kz]) != canon(b.zones[kz]):
                    res.violate("C07.listing", -1, what="key-vector read depends on the directory listing order", date=d)
                    break
                for path in PW.leaf_paths(tree):
                    if PW.read_direct(root, path, d) != PW.read_direct(root2, path, d):
                        res.violate("C07.listing", -1, what="scalar read depends on the directory listing order", path=list(path), date=d)
                        break

        writes = 0
        reads_after_write = 0
        kept_sims = {} if scn.get("long_lived") else None
        for step, op in enumerate(scn["ops"]):
            if res.violations:
                break
            do = op["do"]
            kind = do[0]
            res.count("steps")
            if kind == "reform":
                _, new, base, mods, read_first = do
                if base not in systems or new in systems:
                    continue
                seen: list = []
                try:
                    systems[new] = make_reform(systems[base], mods, read_first, seen)
                except Exception as e:  # noqa: BLE001
                    H.add("W", "reform", [new, base], ["exc", type(e).__name__])
                    continue
                writes += 1
                if read_first:
                    res.count("probe:view_read_before_modification")
                H.add("W", "reform", [new, base, mods], canon(seen))
            elif kind == "modify_again":
                _, sid, mods = do
                if sid not in systems or sid == "S0":
                    continue
                try:
                    systems[sid].modify_parameters(lambda p, mods=mods: apply_mods(p, mods))
                except Exception as e:  # noqa: BLE001
                    H.add("W", "modify_again", [sid], ["exc", type(e).__name__])
                    continue
                writes += 1
                H.add("W", "modify_again", [sid, mods])
            elif kind == "load_parameters":
                _, sid, tid, lseed = do[:4]
                hook = do[4] if len(do) > 4 else None
                if sid not in systems or tid not in trees:
                    continue
                import openfisca_core.parameters.parameter_node as m_pnode

                from .. import seams

                # the legislation directory of the run: edited in place (same paths, other
                # contents) and loaded again
                directory = os.path.join(SCRATCH, "legislation", "root")
                if os.path.isdir(directory):
                    res.count("probe:directory_rewritten_in_place_and_reloaded")
                shutil.rmtree(os.path.dirname(directory), ignore_errors=True)
                PW.write_dir(trees[tid], directory, style())
                if lseed % 2:
                    # the files keep the timestamps of the versions they replace (a checkout at a
                    # fixed date, `cp -p`, a coarse file clock): only their contents tell
                    for base_dir, _dirs, files in os.walk(os.path.dirname(directory)):
                        for name in files:
                            os.utime(os.path.join(base_dir, name), (1500000000, 1500000000))
                    res.count("probe:rewritten_files_keep_their_timestamps")
                real = m_pnode.os
                m_pnode.os = seams.listdir_permuter(lseed)
                if hook:
                    def preprocess(parameters, system=systems[sid], hook=hook):
                        try:
                            node = system.get_parameters_at_instant(hook["read"][1])
                            for part in hook["read"][0]:
                                node = getattr(node, part)
                        except Exception:  # noqa: BLE001,S110  (no tree yet, or the parameter is not defined then)
                            pass
                        call_update(get_param(parameters, hook["update"][0], by_attribute=True), hook["update"][1], hook["update"][2])
                        return parameters

                    systems[sid].preprocess_parameters = preprocess
                    res.count("probe:preprocessing_hook_reads_the_view_and_amends_the_loaded_tree")
                try:
                    systems[sid].load_parameters(directory)
                finally:
                    m_pnode.os = real
                    if hook:
                        systems[sid].preprocess_parameters = None
                writes += 1
                res.count("fault:listdir_permuted")
                H.add("W", "load_parameters", [sid, tid])
                # what was loaded is what the directory holds (an independent reading of the
                # specification that was written: the dated-list model)
                res.count("clause:C07.agree")
                for lpath in PW.leaf_paths(trees[tid])[:12]:
                    values = PW.spec_at(trees[tid], lpath)["values"]
                    model = PW.LeafModel(values)
                    if hook and list(lpath) == list(hook["update"][0]):
                        model.update(hook["update"][1]["start"], None, hook["update"][2])
                    for d in sorted({*(scn.get("pool") or ()), *(PW.shift(e, k) for e, v in values if v != "expected" for k in (0, -1))})[:10]:
                        try:
                            got = PW.read_direct(systems[sid].parameters, lpath, d)
                        except Exception as e:  # noqa: BLE001
                            got = type(e).__name__
                        if got != model.at(d) and not (got != got and model.at(d) != model.at(d)):
                            res.violate("C07.agree", step, op=do[:3], what="after reloading, the tree does not hold what the directory holds",
                                        path=list(lpath), date=d, expected=model.at(d), got=got)
                            break
                    if res.violations:
                        break
            elif kind == "read":
                _, sid, route, path, date = do
                if sid not in systems:
                    continue
                system = systems[sid]
                try:
                    want = PW.read_direct(system.parameters, path, date)  # route (b): the tree itself
                except AttributeError:
                    continue  # the path does not exist in this system's tree
                got = read_scalar(system, route, path, date, res, keep=kept_sims, sid=sid)
                res.count("clause:C07.agree")
                res.count(f"probe:route_{route}")
                if writes:
                    reads_after_write += 1
                ok = (
                    (want is None and got == ("undef",))
                    or (want is not None and got[0] == "val" and got[1] == float(want))
                    or (want is not None and got[0] == "val32" and (got[1] == numpy.float32(want)).all())
                )
                H.add(op["actor"], "read", do[1:], [canon(want), canon(got)])
                if got[0] == "trace-mismatch":
                    res.violate("C07.trace", step, op=do, tree_value=want, got=got[1:])
                elif not ok:
                    res.violate("C07.agree", step, op=do, route=route, tree_value=want, got=canon(got), writes_before=writes)
            elif kind == "sread":
                # the scale at a date, against its brackets' own dated leaves
                _, sid, route, date = do[:4]
                work = do[4] if len(do) > 4 else None
                if sid not in systems:
                    continue
                system = systems[sid]
                sc_node = getattr(system.parameters, "sc", None)
                if sc_node is None:
                    continue
                want = []
                for b in sc_node.brackets:
                    t, r = b.threshold(date), b.rate(date)
                    if t is not None and r is not None:
                        want.append((float(t), float(r)))
                want.sort()
                try:
                    at = system.get_parameters_at_instant(date).sc if route == "a" else sc_node(date)
                    got = sorted((float(t), float(r)) for t, r in zip(at.thresholds, at.rates))
                except Exception as e:  # noqa: BLE001
                    res.violate("C07.agree", step, op=do, route=route, what="scale read raised", error=type(e).__name__)
                    break
                res.count("clause:C07.agree")
                res.count("probe:scale_read")
                if writes:
                    reads_after_write += 1
                H.add(op["actor"], "sread", do[1:], [want, got])
                if got != want:
                    res.violate("C07.agree", step, op=do, route=route, what="scale at the date differs from its brackets' leaves", expected=want, got=got, writes_before=writes)
                elif work and at.thresholds:
                    res.count("probe:reader_works_on_a_copy_of_the_scale")
                    try:
                        if work == "new_rates":
                            at.multiply_rates(2.0, inplace=False, new_name="doubled")
                        else:
                            mine = at.copy()
                            if work == "copy_rates":
                                mine.multiply_rates(2.0, inplace=True)
                            elif work == "copy_bracket":
                                mine.add_bracket(mine.thresholds[0], 0.25)
                            else:
                                mine.multiply_thresholds(3.0, inplace=True)
                    except Exception as e:  # noqa: BLE001
                        res.violate("C07.agree", step, op=do, route=route, what="working on a copy of the scale raised", error=type(e).__name__, detail=str(e)[:160])
                        break
                    again = sorted((float(t), float(r)) for t, r in zip(at.thresholds, at.rates))
                    if again != want:
                        res.violate("C07.agree", step, op=do, route=route, what="the scale that was read changed when the reader worked on a copy of it", expected=want, got=again, work=work)
            elif kind == "vread":
                _, sid, route, vkind, keys, date = do
                if sid not in systems:
                    continue
                system = systems[sid]
                group = {"date": "asof", "nested": "nz", "flags": "flags", "rank": "ranks"}.get(vkind, "zones")
                gnode = getattr(system.parameters, group, None)
                if gnode is None:
                    continue
                # expected, element by element, from scalar reads of the tree itself
                try:
                    if vkind == "date":
                        # the dates may come in another unit than days (seconds as pandas gives
                        # them, months, years): a coarser key denotes the first day of its unit
                        import zlib

                        unit = ("D", "D", "D", "s", "M", "Y", "ns", "W")[zlib.crc32(repr(do).encode()) % 8]
                        key = numpy.array(keys, dtype="datetime64[D]").astype(f"datetime64[{unit}]")
                        keys = [str(k) for k in key.astype("datetime64[D]")]
                        res.count(f"probe:date_vector_unit_{unit}")
                        want = [PW.read_direct(gnode, (asof_child(gnode, k),), date) for k in keys]
                    elif vkind == "nested":
                        want = [PW.read_direct(gnode, (k, "x"), date) for k in keys]
                        key = numpy.array(keys)
                    else:
                        want = [PW.read_direct(gnode, (k,), date) for k in keys]
                        if vkind == "rank":
                            # numbers as integers, as an object array of text (what a str
                            # variable holds), or as a text array
                            import zlib

                            form = zlib.crc32(repr(do).encode()) % 3
                            key = numpy.array([int(k) for k in keys]) if form == 0 else numpy.array(keys, dtype=object) if form == 1 else numpy.array(keys)
                            res.count(f"probe:rank_keys_form_{form}")
                        elif vkind in ("str", "flags"):
                            key = numpy.array(keys)
                        elif vkind == "enum":
                            key = numpy.array([PW.Zone[k] for k in keys], dtype=object)
                        else:
                            key = PW.Zone.encode(numpy.array(keys))
                except (AttributeError, KeyError):
                    continue
                if any(w is None for w in want):
                    if vkind != "flags":
                        continue
                    # a member that is not defined at the date: a vector read naming it
                    # must fail, as the read by name does
                    res.count("clause:C07.agree")
                    res.count("probe:vector_names_an_undefined_member")
                    try:
                        if route == "a":
                            served = getattr(system.get_parameters_at_instant(date), group)[key]
                        else:
                            PW.CUR["group"], PW.CUR["keys"] = (group,), key
                            sim = SimulationBuilder().build_default_simulation(system, count=len(keys))
                            served = sim.calculate("rpz", date)
                    except Exception as e:  # noqa: BLE001
                        H.add(op["actor"], "vread", do[1:], ["raises", type(e).__name__])
                        continue
                    res.violate("C07.agree", step, op=do, route=route, vector=vkind, what="a vector read served a member that is not defined at the date",
                                undefined=[k for k, w in zip(keys, want) if w is None], got=[float(x) for x in numpy.asarray(served).tolist()])
                    continue
                try:
                    if route == "a":
                        got = getattr(system.get_parameters_at_instant(date), group)[key]
                        if vkind == "nested":
                            got = got.x
                    else:
                        PW.CUR["group"], PW.CUR["keys"] = (group,), key
                        sim = SimulationBuilder().build_default_simulation(system, count=len(keys))
                        sim.trace = route == "d"
                        if vkind == "nested":
                            continue
                        got = sim.calculate("rpz", date)
                        want = [float(numpy.float32(w)) for w in want]
                except Exception as e:  # noqa: BLE001
                    res.violate("C07.agree", step, op=do, route=route, what="vector read raised", error=type(e).__name__, detail=str(e)[:200])
                    break
                res.count("clause:C07.agree")
                res.count(f"probe:vector_{vkind}")
                if writes:
                    reads_after_write += 1
                gl = [float(x) for x in numpy.asarray(got).tolist()]
                H.add(op["actor"], "vread", do[1:], [want, gl])
                if gl != [float(w) for w in want]:
                    detail = {}
                    if vkind == "date":
                        detail["children_order"] = list(gnode.children)
                    res.violate("C07.agree", step, op=do, route=route, vector=vkind, expected=want, got=gl, writes_before=writes, **detail)
        res.nontrivial = reads_after_write > 0
        res.count("id_calls", env.ids.calls)
        if env.ids.reused:
            res.count("fault:identity_reused", env.ids.reused)
        res.mark("interleavings", digest([(o["actor"], o["do"][0]) for o in scn["ops"]]))
        res.count("executions")
        res.events = H.events
        res.digest = H.digest()
        return res
    finally:
        systems = None
        seams.Env.uninstall()
        shutil.rmtree(SCRATCH, ignore_errors=True)


# --------------------------------------------------------------------------- #

RULE06 = (
    "scenario = generated parameter tree (leaves with null values, gaps and `expected` placeholders, nested groups, one "
    "scale, homogeneous groups) loaded from a dict or from a YAML directory under a permuted listing + 2-8 range updates "
    "(period / start-stop / open-ended; boundaries drawn from existing entry dates +-1 day as well as at random; null "
    "values). After every update every leaf is probed at all entry dates of model and implementation +-1 day plus random "
    "dates. Non-trivial = at least one update applied; distinct = distinct run digests."
)
RULE07 = (
    "scenario = generated parameter tree loaded from a dict or YAML directory (permuted listing) + 5-12 interleaved ops by "
    "two readers and one writer: scalar reads through get_parameters_at_instant / formula parameters untraced / traced, "
    "vector reads by str / Enum / EnumArray keys, nested groups and date vectors; writes = reform with parameter modifier "
    "(range updates, add_child, replaced child; sometimes after the reform read its own view), a later modify_parameters "
    "on an existing reform, load_parameters on a system whose views were read. Non-trivial = at least one read happened "
    "after a write; distinct = distinct run digests."
)


def _shrink_tree(scn):
    """Drop leaf entries / brackets of the tree."""
    for path in PW.leaf_paths(scn["tree"]):
        vals = PW.spec_at(scn["tree"], path)["values"]
        if len(vals) > 1:
            for i in range(len(vals)):
                c = copy.deepcopy(scn)
                del PW.spec_at(c["tree"], path)["values"][i]
                yield c
    if scn.get("load") == "dir":
        c = copy.deepcopy(scn)
        c["load"] = "dict"
        yield c


C06 = types.SimpleNamespace(
    PROPERTY="C06", LEVEL="exploration", HASH_FREE=True, RULE=RULE06, COMPONENTS=COMPONENTS,
    generate=c06_generate, run=c06_run, extra_shrinkers=(_shrink_tree,),
    ASSUMPTIONS=["the dated-list model (dsim/paramworld.py: LeafModel) states the property; precondition start <= stop"],
)
C07 = types.SimpleNamespace(
    PROPERTY="C07", LEVEL="exploration", HASH_FREE=True, RULE=RULE07, COMPONENTS=COMPONENTS,
    generate=c07_generate, run=run_c07, extra_shrinkers=(_shrink_tree,),
    ASSUMPTIONS=["the tree read directly (parameter(date)) at the same step is the specification; before_/after_ naming convention defines date-vector reads"],
)
CHECKS = {"C06": C06, "C07": C07}
