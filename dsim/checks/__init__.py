"""Registry of checks.  Each module exposes:

PROPERTY, LEVEL, RULE, HASH_FREE, COMPONENTS
generate(seed: int, tier: str) -> scenario (JSON-able dict)
run(scenario) -> Result
extra_shrinkers (optional tuple of candidate generators)
"""

from __future__ import annotations

import importlib

MODULES = {
    "C02": "c02",
    "C06": "c06_c07",
    "C07": "c06_c07",
    "C13": "c13",
    "C14": "c14",
    "C16": "c16",
    "C17": "c17",
    "C18": "c18",
    "C19": "c19",
    "C20": "c20",
}


def load(prop: str):
    mod = importlib.import_module(f"dsim.checks.{MODULES[prop]}")
    return mod.CHECKS[prop] if hasattr(mod, "CHECKS") else mod


class Result:
    """What one simulated run produced."""

    def __init__(self) -> None:
        self.violations: list[dict] = []
        self.stats: dict[str, int] = {}
        self.sets: dict[str, set] = {}
        self.events: list = []
        self.nontrivial = False
        self.discarded = None  # reason when the run could not be judged

    def count(self, key: str, n: int = 1) -> None:
        self.stats[key] = self.stats.get(key, 0) + n

    def mark(self, key: str, item) -> None:
        self.sets.setdefault(key, set()).add(item)

    def violate(self, clause: str, step, **detail) -> None:
        self.violations.append({"clause": clause, "step": step, **detail})

    def clauses(self):
        return sorted({v["clause"] for v in self.violations})
