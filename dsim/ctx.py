"""Run context called by generated formulas.

Generated formulas bracket their body with `ctx.enter` / `frame.rd` /
`frame.prm` / `frame.leave`.  This is where the harness logs every read a
formula performs with the value it got back, counts fault sites, and where the
fault plan can make the formula fail.  Harness code inside harness-generated
formulas — not a hook in /repo.
"""

from __future__ import annotations

import sys

import numpy


def py_depth() -> int:
    """Number of Python frames on the interpreter stack right now."""
    f = sys._getframe()
    n = 0
    while f is not None:
        n += 1
        f = f.f_back
    return n


class InjectedFault(Exception):
    """F1: the exception a formula raises on purpose."""

    def __init__(self, site: int) -> None:
        super().__init__(f"injected fault at site {site}")
        self.site = site


class RunTooBig(BaseException):
    """Evaluation tree larger than the per-request cap: the run is discarded.
    (BaseException: no `except Exception` of the harness or of the code under
    test may mistake it for an outcome.)"""


MAX_ENTERS = 4000
RD_KINDS = ("bad_period_long", "raise_any", "raise_after", "bad_var", "bad_entity", "bad_period", "add_divide", "bad_option")
LEAVE_KINDS = ("raise_any", "raise", "bad_len", "bad_dtype", "bad_enum", "bad_enum_index")


class Frame:
    __slots__ = ("ctx", "var", "period", "reads", "params", "done", "seq", "depth", "result")

    def __init__(self, ctx, var, period, seq, depth) -> None:
        self.ctx = ctx
        self.var = var
        self.period = period
        self.reads = []  # [var, period, opt, value|None, raised?]
        self.params = []  # [path, instant_str, value]
        self.done = False
        self.seq = seq
        self.depth = depth
        self.result = None

    # a variable read ------------------------------------------------------- #
    def rd(self, call, var, period, opt=None):
        ctx = self.ctx
        ctx.site += 1
        site = ctx.site
        ctx.rd_stack.append(site)
        try:
            return self._rd(call, var, period, opt, site)
        finally:
            ctx.rd_stack.pop()

    def _rd(self, call, var, period, opt, site):
        ctx = self.ctx
        fault = ctx.plan.get(site)
        if fault is not None and fault["kind"] not in RD_KINDS:
            fault = None  # a fault of another site type: not applicable here
        options = None if opt is None else [opt]
        asked = (var, period, options)
        if fault is not None:
            kind = fault["kind"]
            if kind == "bad_var":
                var = "no_such_variable"
            elif kind == "bad_entity":
                var = fault["var"]
            elif kind == "bad_period":
                period = fault["period"]
                options = None
            elif kind == "bad_period_long":
                # a day-defined variable asked for a whole month: accepted by the period
                # check, refused when the value is stored.  Not while the variable is
                # being computed further up (the spiral heuristic would answer first).
                if any(f.var == var and not f.done for f in ctx.frames):
                    fault = None
                else:
                    period = fault["period"]
                    options = None
            elif kind == "add_divide":
                options = ["ADD", "DIVIDE"]
            elif kind == "bad_option":
                options = ["LAGRANGIAN"]
            if fault is not None and kind != "raise_after":
                ctx.fired.append((site, kind))  # (raise_any fires here, raises after the read)
                ctx.arm(fault, exclude_self=kind == "raise_any")
        rec = [var, period, opt, None, True]
        self.reads.append(rec)
        ent = getattr(call, "entity", None)
        if ent is None:
            ent = call.reference_entity.entity
        ctx.kinds.append(("rd", ent.key, rec[0]))
        ctx.depth += 1
        try:
            if options is None:
                value = call(var, period)
            else:
                value = call(var, period, options)
        except Exception as e:  # noqa: BLE001
            if ctx.catcher != site:
                raise
            # F1c: this formula handles the failure of the request it made, and
            # makes the request again - the cause is gone - before carrying on
            ctx.catcher = None
            ctx.caught.append((site, e))
            var, period, options = asked
            rec = [var, period, opt, None, True]
            self.reads.append(rec)
            if options is None:
                value = call(var, period)
            else:
                value = call(var, period, options)
            if fault is not None and fault["kind"] not in ("raise_after", "raise_any"):
                fault = None
        finally:
            ctx.depth -= 1
        rec[3] = value
        rec[4] = False
        if ctx.sim is not None and options is None:
            # a *substituted default*: the read returned, yet nothing is stored
            # for (var, period) although the variable has a formula there
            rec.append(ctx.is_substituted(var, period))
        elif ctx.sim is not None:
            # a summed / divided read: the same question for each stored piece it read
            rec.append(ctx.substituted_pieces(var, period, options))
        if fault is not None and fault["kind"] in ("raise_after", "raise_any"):
            if fault["kind"] == "raise_after":
                ctx.fired.append((site, "raise_after"))
                ctx.arm(fault, exclude_self=True)
            raise InjectedFault(site)
        return value

    # a parameter read ------------------------------------------------------ #
    def prm(self, parameters, period, path):
        ctx = self.ctx
        ctx.site += 1
        site = ctx.site
        ctx.kinds.append(("prm", path))
        fault = ctx.plan.get(site)
        instant = period
        if fault is not None and fault["kind"] == "undef_param":
            ctx.fired.append((site, "undef_param"))
            ctx.arm(fault)
            instant = "1850-01-01"
            path = "late.p3"
        node = parameters(instant)
        for part in path.split("."):
            node = getattr(node, part)
        self.params.append([path, str(instant), node])
        return node

    def leave(self, result):
        ctx = self.ctx
        ctx.site += 1
        site = ctx.site
        ctx.kinds.append(("leave", self.var))
        fault = ctx.plan.get(site)
        if fault is not None and fault["kind"] not in LEAVE_KINDS:
            fault = None
        if fault is not None:
            kind = fault["kind"]
            ctx.fired.append((site, kind))
            ctx.arm(fault)
            if kind in ("raise", "raise_any"):
                raise InjectedFault(site)
            if kind == "bad_len":
                result = numpy.zeros(ctx.count_of(self.var) + 1, dtype=numpy.float32)
            elif kind == "bad_dtype":
                result = numpy.array(["not-a-number"] * ctx.count_of(self.var), dtype=object)
            elif kind == "bad_enum":
                result = numpy.array(["no_such_member"] * ctx.count_of(self.var))
            elif kind == "bad_enum_index":
                # raw codes instead of indices: all past the last member, some of them a
                # multiple of 256 away from a valid index
                result = numpy.array([256 + (k % 3) for k in range(ctx.count_of(self.var))], dtype=numpy.int64)
            # the formula "returned", but what it returned cannot be stored:
            # its computation does not count as completed
            self.result = result
            return result
        self.result = result
        self.done = True
        return result


class Ctx:
    """One per process; `begin()` before every top-level operation."""

    def __init__(self) -> None:
        self.counts = {}
        self.begin()
        self.total_enters = 0
        self.total_reads = 0

    sim = None  # set by the check when substituted defaults must be told apart
    pending_base = None

    def is_substituted(self, var, period) -> bool:
        sim = self.sim
        try:
            variable = sim.tax_benefit_system.get_variable(var)
            population = sim.populations[variable.entity.key]
            holder = population._holders.get(var)
            if holder is None or holder._do_not_store:
                return False
            if holder.get_array(period) is not None:
                return False
            return variable.get_formula(period) is not None
        except Exception:  # noqa: BLE001
            return False

    def substituted_pieces(self, var, period, options) -> list:
        try:
            from openfisca_core import periods

            variable = self.sim.tax_benefit_system.get_variable(var)
            p = periods.period(period)
            unit = variable.definition_period
            if "ADD" in [str(o).upper() for o in options]:
                pieces = p.get_subperiods(unit)
            else:
                pieces = [p.this_year if str(unit) == "year" else p.first_month]
            return [str(q) for q in pieces if self.is_substituted(var, q)]
        except Exception:  # noqa: BLE001  (bookkeeping for a finding matcher only)
            return []

    def begin(self, plan=None):
        self.site = 0
        self.plan = plan or {}
        self.fired = []
        self.frames = []
        self.kinds = []  # kind of every site, in order (for fault enumeration)
        self.depth = 0
        self.call_stack = []  # harness call tree (C17.trace), see sim.watch_calls
        self.rd_stack = []  # sites of the variable reads in progress, outermost first
        self.catcher = None  # site of the read whose formula handles the failure
        self.caught = []  # [(site of that read, the exception it received)]
        # depth of the top-level call (handed over by C18's stack-exhaustion mode just before)
        self.base_depth, self.pending_base = self.pending_base, None
        self.max_depth = 0  # deepest formula entry seen, in Python frames

    def count_of(self, var):
        return self.counts.get(var, 1)

    def enter(self, var, period):
        self.site += 1
        site = self.site
        self.kinds.append(("enter", var))
        if len(self.frames) >= MAX_ENTERS:
            raise RunTooBig(var)
        if self.base_depth is not None:
            d = py_depth()
            if d > self.max_depth:
                self.max_depth = d
        frame = Frame(self, var, period, len(self.frames), self.depth)
        self.frames.append(frame)
        if self.call_stack:
            self.call_stack[-1]["frame"] = frame
        fault = self.plan.get(site)
        if fault is not None and fault["kind"] in ("raise", "raise_any"):
            self.fired.append((site, fault["kind"]))
            self.arm(fault)
            raise InjectedFault(site)
        return frame

    def arm(self, fault, exclude_self=False) -> None:
        """F1c: the failure about to happen is handled by the formula `catch_up`
        variable reads further up (the outermost one when there are fewer)."""
        n = fault.get("catch_up")
        if not n:
            return
        stack = self.rd_stack[:-1] if exclude_self else self.rd_stack
        if stack:
            self.catcher = stack[-min(n, len(stack))]

    # summaries ------------------------------------------------------------- #
    def incomplete(self):
        return [(f.var, f.period) for f in self.frames if not f.done]

    def completed(self):
        return [(f.var, f.period) for f in self.frames if f.done]


CTX = Ctx()
