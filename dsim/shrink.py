"""Minimisation of failing scenarios (DESIGN 3.8).

Greedy loop over candidate transformations while the *same clause* keeps
failing: ddmin over the op list, drop faults one at a time, flatten environment
schedules, slice the world to the variables still mentioned, shrink population
and inputs, replace sub-expressions by constants.  Bounded by a time budget.
Logging never draws from a PRNG.
"""

from __future__ import annotations

import copy
import json
import time


def _mentions(expr, acc):
    if isinstance(expr, list):
        if expr and expr[0] == "rd":
            acc.add(expr[1])
        for x in expr:
            _mentions(x, acc)


def variables_used(scn) -> set:
    used = set()
    for op in list(scn.get("ops", [])) + list(scn.get("after", [])):
        args = (op.get("args") or op.get("do") or []) if isinstance(op, dict) else op
        for a in args:
            if isinstance(a, str):
                used.add(a)
    for key in ("requests", "pool"):
        for r in scn.get(key, []):
            for a in r:
                if isinstance(a, str):
                    used.add(a)
    for i in scn.get("inputs", []):
        pass
    k = scn.get("knobs", {}) or {}
    names = {v["name"] for v in scn["world"]["variables"]}
    used &= names
    # closure over formulas
    changed = True
    by = {v["name"]: v for v in scn["world"]["variables"]}
    while changed:
        changed = False
        for n in list(used):
            acc = set()
            for f in by[n].get("formulas", {}).values():
                _mentions(f, acc)
            new = (acc & names) - used
            if new:
                used |= new
                changed = True
    return used


def cand_ops(scn, key="ops"):
    """ddmin-style: drop halves, quarters, …, single ops."""
    ops = scn.get(key, [])
    n = len(ops)
    if n <= 1:
        return
    chunk = n // 2
    while chunk >= 1:
        for start in range(0, n, chunk):
            c = copy.deepcopy(scn)
            c[key] = ops[:start] + ops[start + chunk :]
            if c[key]:
                yield c
        chunk //= 2


def cand_faults(scn):
    faults = scn.get("faults", [])
    for i in range(len(faults)):
        c = copy.deepcopy(scn)
        del c["faults"][i]
        yield c


def cand_env(scn):
    env = scn.get("env") or {}
    if env.get("mem") not in (None, "low", "high"):
        for flat in ("high", "low"):
            c = copy.deepcopy(scn)
            c["env"]["mem"] = flat
            yield c
    if env.get("clock") not in (None, "steady"):
        c = copy.deepcopy(scn)
        c["env"]["clock"] = "steady"
        yield c
    k = scn.get("knobs") or {}
    for name in ("blacklist", "opt_out", "trace"):
        if k.get(name):
            c = copy.deepcopy(scn)
            c["knobs"][name] = [] if name == "blacklist" else False
            yield c
    if k.get("memory"):
        c = copy.deepcopy(scn)
        c["knobs"]["memory"] = None
        yield c
        for name in ("priority", "drop"):
            if k["memory"].get(name):
                c = copy.deepcopy(scn)
                c["knobs"]["memory"][name] = []
                yield c


def cand_world_slice(scn):
    if "world" not in scn:
        return
    used = variables_used(scn)
    vs = scn["world"]["variables"]
    if used and len(used) < len(vs):
        c = copy.deepcopy(scn)
        c["world"]["variables"] = [v for v in vs if v["name"] in used]
        c["inputs"] = [i for i in c.get("inputs", []) if i[0] in used]
        _prune_knobs(c, used)
        yield c


def _prune_knobs(c, used):
    k = c.get("knobs") or {}
    if k.get("blacklist"):
        k["blacklist"] = [v for v in k["blacklist"] if v in used]
    if k.get("memory"):
        for name in ("priority", "drop"):
            if k["memory"].get(name):
                k["memory"][name] = [v for v in k["memory"][name] if v in used]


def cand_inputs(scn):
    ins = scn.get("inputs", [])
    for i in range(len(ins)):
        c = copy.deepcopy(scn)
        del c["inputs"][i]
        yield c


def cand_persons(scn):
    sit = scn.get("situation")
    if not sit:
        return
    persons = list(sit.get("persons", {}))
    if len(persons) <= 1:
        return
    for pid in persons:
        c = copy.deepcopy(scn)
        del c["situation"]["persons"][pid]
        for plural, groups in c["situation"].items():
            if plural == "persons":
                continue
            for g in groups.values():
                for role, lst in g.items():
                    if isinstance(lst, list) and pid in lst:
                        lst.remove(pid)
        yield c
    # drop a whole group entity instance
    for plural, groups in sit.items():
        if plural == "persons" or len(groups) <= 1:
            continue
        for gid, g in groups.items():
            if not any(isinstance(l, list) and l for l in g.values()):
                c = copy.deepcopy(scn)
                del c["situation"][plural][gid]
                yield c


def _subexprs(expr, path=()):
    if isinstance(expr, list) and expr and isinstance(expr[0], str):
        yield path, expr
        for i, x in enumerate(expr):
            if isinstance(x, list):
                yield from _subexprs(x, (*path, i))


def _set_path(expr, path, value):
    if not path:
        return value
    e = expr
    for i in path[:-1]:
        e = e[i]
    e[path[-1]] = value
    return expr


def cand_exprs(scn):
    if "world" not in scn:
        return
    for vi, v in enumerate(scn["world"]["variables"]):
        fs = v.get("formulas", {})
        # drop a dated formula
        if len(fs) > 1:
            for s in fs:
                c = copy.deepcopy(scn)
                del c["world"]["variables"][vi]["formulas"][s]
                yield c
        for s, f in fs.items():
            for path, sub in _subexprs(f):
                if sub[0] == "c":
                    continue
                if sub[0] in ("<", "<=", ">", ">=", "=="):
                    continue
                # replace by a constant
                c = copy.deepcopy(scn)
                c["world"]["variables"][vi]["formulas"][s] = _set_path(
                    c["world"]["variables"][vi]["formulas"][s], path, ["c", 1.0]
                )
                yield c
                # hoist a child
                if sub[0] in ("b", "w", "im", "iy"):
                    for child in sub[2:]:
                        if isinstance(child, list) and child and child[0] not in ("<", "<=", ">", ">=", "=="):
                            c = copy.deepcopy(scn)
                            c["world"]["variables"][vi]["formulas"][s] = _set_path(
                                c["world"]["variables"][vi]["formulas"][s], path, copy.deepcopy(child)
                            )
                            yield c
        for attr in ("end", "set_input", "default", "max_length"):
            if attr in v and not (attr == "default" and v["type"] == "enum"):
                c = copy.deepcopy(scn)
                del c["world"]["variables"][vi][attr]
                yield c


GENERIC = (cand_ops, cand_faults, cand_env, cand_world_slice, cand_inputs, cand_persons, cand_exprs)


def size(scn) -> int:
    return len(json.dumps(scn, sort_keys=True, default=str))


def minimise(scn, fails, extra=(), budget_s=60.0, log=None):
    """Return the smallest scenario found for which `fails(scenario)` is True."""
    deadline = time.monotonic() + budget_s
    best = scn
    progress = True
    rounds = 0
    while progress and time.monotonic() < deadline:
        progress = False
        rounds += 1
        for gen in (*GENERIC, *extra):
            again = True
            while again and time.monotonic() < deadline:
                again = False
                for cand in gen(best):
                    if time.monotonic() > deadline:
                        break
                    if size(cand) >= size(best):
                        continue
                    try:
                        ok = fails(cand)
                    except Exception:  # noqa: BLE001
                        ok = False
                    if ok:
                        best = cand
                        progress = True
                        again = True
                        break
    return best
