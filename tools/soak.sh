#!/bin/bash
# usage: soak.sh "<seeds>" [budget_s]  -- quick checks for several seeds on the current /repo, evidence kept apart
cd "$(dirname "$0")/.."
B=${2:-40}
for s in $1; do
  for p in C02 C06 C07 C13 C14 C16 C17 C18 C19 C20; do
    VERIF_SEED=$s VERIF_BUDGET_S=$B VERIF_EVIDENCE_DIR=/dev/shm/soak-ev VERIF_REPLAY_ROOT=$PWD/soak-replays /venv/bin/python -m dsim check $p --tier quick 2>/dev/null | grep -v "^KNOWN-FINDING\|explored violations matched" | cut -c1-240
  done
done
echo SOAK-DONE
