"""Re-run a scenario file and rewrite its `expect` / `violation` fields.
usage: mkcanary.py <in.json> <out.json> [clause]   (run with PYTHONHASHSEED of the scenario)"""
import json, os, subprocess, sys
src, dst = sys.argv[1], sys.argv[2]
scn = json.load(open(src))
if os.environ.get("_MKC") != "1":
    env = dict(os.environ, _MKC="1", PYTHONHASHSEED=str(scn.get("hash_seed", 0) or 0), PYTHONPATH="/verif")
    sys.exit(subprocess.call([sys.executable, *sys.argv], env=env))
sys.path.insert(0, "/verif")
from dsim.checks import load
check = load(scn["property"])
scn.pop("expect", None); scn.pop("violation", None)
res = check.run(scn)
clause = sys.argv[3] if len(sys.argv) > 3 else (res.violations[0]["clause"] if res.violations else None)
vs = [v for v in res.violations if v["clause"] == clause]
if not vs:
    print("no violation of", clause); sys.exit(1)
scn["expect"] = {"clause": clause, "digest": res.digest}
scn["violation"] = vs[0]
json.dump(scn, open(dst, "w"), indent=1, default=str)
print("wrote", dst, json.dumps(vs[0])[:300])
