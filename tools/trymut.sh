#!/bin/bash
# usage: trymut.sh <patch> <property> [budget_s]   -- run a quick check against a patched scratch copy of /repo
set -e
P=$1; PROP=$2; B=${3:-25}
C=/dev/shm/trymut-$$
rsync -a --exclude .git --exclude __pycache__ /repo/ $C/
(cd $C && patch -p1 --no-backup-if-mismatch -s -i $P)
cd /verif
VERIF_REPO=$C VERIF_BUDGET_S=$B VERIF_EVIDENCE_DIR=$C-out/evidence VERIF_REPLAY_ROOT=$C-out/replays /venv/bin/python -m dsim check $PROP --tier quick 2>/dev/null | cut -c1-220 | head -${4:-6} || true
if [ -n "$KEEP" ]; then echo "kept $C-out"; else rm -rf $C-out; fi
rm -rf $C
