"""Run the repository's pinned baseline (BASELINE.json) on a tree and report whether
all stable tests still pass.  usage: baseline.py [repo_dir]"""
import json, os, subprocess, sys, tempfile
import xml.etree.ElementTree as ET

repo = sys.argv[1] if len(sys.argv) > 1 else "/repo"
base = json.load(open("/root/.vp/BASELINE.json"))
stable = set(base["stable_pass"])
with tempfile.TemporaryDirectory(dir="/dev/shm") as d:
    xml = os.path.join(d, "junit.xml")
    env = dict(os.environ, PYTHONPATH=repo)
    env.pop("OPENFISCA_CORE_VERIF", None)
    p = subprocess.run(
        ["/venv/bin/python", "-m", "pytest", "-ra", "-q", "-p", "no:cacheprovider", "--timeout=900",
         "--continue-on-collection-errors", f"--junitxml={xml}"],
        cwd=repo, env=env, capture_output=True, text=True)
    passed = set()
    for tc in ET.parse(xml).getroot().iter("testcase"):
        name = f"{tc.get('classname')}::{tc.get('name')}"
        if not any(ch.tag in ("failure", "error", "skipped") for ch in tc):
            passed.add(name)
missing = sorted(stable - passed)
print(f"baseline on {repo}: {len(stable & passed)}/{len(stable)} stable tests pass")
for m in missing[:20]:
    print("  NOT PASSING:", m)
sys.exit(1 if missing else 0)
