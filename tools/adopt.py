"""Adopt a sub-agent's seeded change after confirming everything myself.
usage: adopt.py <worktree> <name> <property> [also_checked_by,...]
Confirms: suite passes with the change; demo.py fails with it and passes without it.
Copies patch.diff, demo.py, notes.md to /verif/seeded/<name>/ and writes meta.json."""
import json, os, shutil, subprocess, sys
wt, name, prop = sys.argv[1:4]
also = sys.argv[4].split(",") if len(sys.argv) > 4 and sys.argv[4] else []
def sh(cmd, **kw):
    return subprocess.run(cmd, shell=True, cwd=wt, capture_output=True, text=True, **kw)
subprocess.run(f"cd {wt} && git diff -- openfisca_core openfisca_web_api > patch.diff", shell=True, check=True)
assert os.path.getsize(f"{wt}/patch.diff") > 0, "empty patch"
base = subprocess.run(["/venv/bin/python", "/verif/tools/baseline.py", wt], capture_output=True, text=True)
print(base.stdout.strip().splitlines()[0])
with_change = sh("/venv/bin/python demo.py").returncode
# (never `git stash`: the stash is shared by every worktree of the repository)
assert sh("git apply -R patch.diff").returncode == 0, "cannot revert patch"
try:
    without = sh("/venv/bin/python demo.py").returncode
finally:
    assert sh("git apply patch.diff").returncode == 0, "cannot re-apply patch"
print("demo: with change exit", with_change, "| without exit", without)
ok = base.returncode == 0 and with_change != 0 and without == 0
if not ok:
    print("NOT ADOPTED"); sys.exit(1)
dst = f"/verif/seeded/{name}"
os.makedirs(dst, exist_ok=True)
for f in ("patch.diff", "demo.py", "notes.md"):
    if os.path.exists(f"{wt}/{f}"):
        shutil.copy(f"{wt}/{f}", dst)
lines = sum(1 for l in open(f"{dst}/patch.diff") if l[:1] in "+-" and l[:3] not in ("+++", "---"))
json.dump({
    "property": prop, "also_checked_by": also, "name": name,
    "needs_to_manifest": "see notes.md",
    "confirmed": {"baseline_440_pass_with_change": True, "demo_exit_with_change": with_change, "demo_exit_without_change": without,
                  "commands": [f"/venv/bin/python /verif/tools/baseline.py <worktree>", "cd <worktree> && /venv/bin/python demo.py  (with change, then after git apply -R patch.diff)"]},
    "changed_lines": lines, "source": "independent sub-agent given only the property text and a scratch worktree",
}, open(f"{dst}/meta.json", "w"), indent=1)
print("adopted ->", dst)
