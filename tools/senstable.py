#!/venv/bin/python
"""Regenerate the sensitivity table and per-change list of DESIGN.md section 12 from
/verif/sensitivity.json (between the SENS-TABLE markers)."""
import json
import re

V = "/verif"
d = json.load(open(f"{V}/sensitivity.json"))
rows, lines = [], []
tk = tn = 0
for prop in sorted(d):
    det = d[prop]["details"]
    seeded = [n for n, x in det.items() if x["kind"] == "seeded"]
    mutant = [n for n, x in det.items() if x["kind"] == "mutant"]
    killed = [n for n, x in det.items() if x["result"] == "killed"]
    clauses = sorted({c for x in det.values() for c in x.get("clauses", [])})
    surv = [n for n, x in det.items() if x["result"] != "killed"]
    rows.append(f"| {prop} | {len(seeded)} + {len(mutant)} | {len(killed)} / {len(det)} | "
                + ", ".join(f"`{c}`" for c in clauses) + " | " + (", ".join(surv) or "—") + " |")
    tk += len(killed)
    tn += len(det)
    for n in sorted(det):
        x = det[n]
        note = f" — {x['note']}" if x.get("note") else ""
        meta = f"{V}/seeded/{n}/meta.json"
        import os
        if x["result"] != "killed" and os.path.exists(meta):
            why = json.load(open(meta)).get("expected_survivor")
            if why:
                note += f" — expected survivor: {why}"
        lines.append(f"* `{n}` ({x['kind']}): {x['result']} — {', '.join(x.get('clauses', [])) or 'nothing'}{note}")
out = ["| property | changes (seeded + mutants) | caught | clauses that caught them | survivors |", "|---|---|---|---|---|", *rows,
       f"| all | | **{tk} / {tn}** | | |", "",
       "Per change (name: result — clauses; a clause of another property means the change was caught by that property's check):", "", *lines]
p = f"{V}/DESIGN.md"
s = open(p).read()
m = re.search(r"<!-- SENS-TABLE -->.*?<!-- /SENS-TABLE -->", s, re.S)
assert m, "markers missing"
s = s[: m.start()] + "<!-- SENS-TABLE -->\n" + "\n".join(out) + "\n<!-- /SENS-TABLE -->" + s[m.end():]
open(p, "w").write(s)
print(f"{tk}/{tn}")
