import json, sys
for f in sys.argv[1:]:
    s=json.load(open(f))
    print('=====',f)
    print('violation', json.dumps(s.get('violation'))[:900])
    print('knobs', s.get('knobs'), 'env', s.get('env'), 'profile', s.get('profile'))
    if 'world' in s:
        for v in s['world']['variables']:
            print('  var', json.dumps(v))
    for k in ('pool','ops','inputs','situation','mode'):
        if k in s: print(k, json.dumps(s[k])[:800])
