#!/venv/bin/python
"""Write the task files of one wave of seeding agents and create their worktrees.
usage: mktasks.py <wave-number> <twist-file>   -> /tmp/agent<w>-<P>.txt, /tmp/w<w>-<P>"""
import glob, json, os, re, subprocess, sys
wave, twist = sys.argv[1], open(sys.argv[2]).read().strip()
V = "/verif"
props = {}
for l in open(f"{V}/properties.jsonl"):
    p = json.loads(l)
    props[p["id"]] = p
claimed = [c["property_id"] for c in json.load(open(f"{V}/MANIFEST.json"))["checks"]]
used = {p: [] for p in claimed}
for meta in sorted(glob.glob(f"{V}/seeded/*/meta.json")):
    m = json.load(open(meta)); d = os.path.dirname(meta)
    files = sorted({os.path.basename(l[6:].strip()) for l in open(d + "/patch.diff") if l.startswith("+++ b/")})
    used[m["property"]].append(os.path.basename(d).split("-", 1)[1].replace("-", " ") + " (" + ", ".join(files) + ")")
t = open(f"{V}/tools/agents/template.txt").read()
for pid in claimed:
    p = props[pid]
    txt = f"""Property {p['id']}: {p['title']}

Statement: {p['statement']}

Quantified over: {p['quantifier']['text']}

Why the existing tests cannot settle it: {p['why_tests_cant']}

Code it is anchored in: {', '.join(p['anchors']['files'])}
Mechanisms meant to make it hold: {'; '.join(m['name']+' ['+m['where']+']' for m in p['anchors']['mechanism'])}
"""
    wt = f"/tmp/w{wave}-{pid}"
    s = t.replace("{WT}", wt).replace("{PROP}", txt).replace("{USED}", "; ".join(used[pid])).replace("{TWIST}", twist)
    open(f"/tmp/agent{wave}-{pid}.txt", "w").write(s)
    if not os.path.exists(wt):
        subprocess.run(["git", "-C", "/repo", "worktree", "add", "-q", "--detach", wt, "HEAD"], check=True)
print("ok", len(claimed))
