"""Generate /verif/mutants/<id>-<name>.patch from (file, old, new) edits against /repo,
validate each against the pinned baseline on a scratch copy, keep only the valid ones."""
import concurrent.futures as cf, difflib, json, os, shutil, subprocess, sys

REPO = "/repo"
OUT = "/verif/mutants"
M = []
def m(name, path, old, new):
    M.append((name, path, old, new))

SIM = "openfisca_core/simulations/simulation.py"
HOLD = "openfisca_core/holders/holder.py"
HELP = "openfisca_core/holders/helpers.py"
MEM = "openfisca_core/data_storage/in_memory_storage.py"
DISK = "openfisca_core/data_storage/on_disk_storage.py"
PARAM = "openfisca_core/parameters/parameter.py"
VEC = "openfisca_core/parameters/vectorial_parameter_node_at_instant.py"
ASOF = "openfisca_core/parameters/vectorial_asof_date_parameter_node_at_instant.py"
TBS = "openfisca_core/taxbenefitsystems/tax_benefit_system.py"
REF = "openfisca_core/reforms/reform.py"
VAR = "openfisca_core/variables/variable.py"
GPOP = "openfisca_core/populations/group_population.py"
FT = "openfisca_core/tracers/full_tracer.py"
DUMP = "openfisca_core/tools/simulation_dumper.py"
TOOLS = "openfisca_core/tools/__init__.py"
RUNNER = "openfisca_core/tools/test_runner.py"
HAND = "openfisca_web_api/handlers.py"
SB = "openfisca_core/simulations/simulation_builder.py"

# ---- C02 -------------------------------------------------------------------
m("C02-spiral-count-ge", SIM, "                if count > self.max_spiral_loops:", "                if count >= self.max_spiral_loops:")
m("C02-purge-only-on-success", SIM,
  "            self.tracer.record_calculation_result(result)\n            return result\n\n        finally:\n            self.tracer.record_calculation_end()\n            self.purge_cache_of_invalid_values()",
  "            self.tracer.record_calculation_result(result)\n            self.tracer.record_calculation_end()\n            self.purge_cache_of_invalid_values()\n            return result\n\n        except BaseException:\n            self.tracer.record_calculation_end()\n            raise")
m("C02-purge-whole-holder", SIM, "            holder.delete_arrays(_period)\n        self.invalidated_caches = set()", "            holder.delete_arrays()\n        self.invalidated_caches = set()")
m("C02-tainted-hit-marks-only-top", SIM, "                for frame in self.tracer.stack:\n                    self.invalidate_cache_entry(str(frame[\"name\"]), frame[\"period\"])",
  "                for frame in self.tracer.stack[-2:]:\n                    self.invalidate_cache_entry(str(frame[\"name\"]), frame[\"period\"])")
m("C02-purge-keeps-taint-set", SIM, "            holder.delete_arrays(_period)\n        self.invalidated_caches = set()", "            holder.delete_arrays(_period)")
# ---- C06 -------------------------------------------------------------------
# equivalent / inside a stated don't-care band (see DESIGN 10): C06-future-loop-gt
m("C06-covered-loop-gt", PARAM, "        while (i < n) and (old_values[i].instant_str >= start_str):", "        while (i < n) and (old_values[i].instant_str > start_str):")
m("C06-lookup-lt", PARAM, "            if value_at_instant.instant_str <= instant:", "            if value_at_instant.instant_str < instant:")
m("C06-no-reopen-when-no-past", PARAM,
  "            else:\n                value_name = helpers._compose_name(self.name, item_name=stop_str)\n                new_interval = ParameterAtInstant(\n                    value_name,\n                    stop_str,\n                    data={\"value\": None},\n                )\n                new_values.append(new_interval)",
  "            else:\n                pass")
m("C06-expected-only-string", PARAM, "                instant_info == \"expected\"\n                or isinstance(instant_info, dict)\n                and instant_info.get(\"expected\")", "                instant_info == \"expected\"")
# ---- C07 -------------------------------------------------------------------
m("C07-reform-no-deepcopy", REF, "        parameters_copy = copy.deepcopy(self.parameters)", "        parameters_copy = self.parameters")
# equivalent / inside a stated don't-care band (see DESIGN 10): C07-cache-key-instant-name
m("C07-load-parameters-keeps-tree", TBS, "        self.parameters = parameters\n\n    def _get_baseline_parameters_at_instant", "        if self.parameters is None:\n            self.parameters = parameters\n        else:\n            self.parameters.children = parameters.children\n            self.parameters.__dict__.update({k: v for k, v in parameters.children.items()})\n\n    def _get_baseline_parameters_at_instant")
m("C07-vector-unsorted", VEC, "        subnodes_name = sorted(node._children.keys())", "        subnodes_name = list(node._children.keys())")
m("C07-asof-strict", ASOF, "            conditions = sum([name <= key for name in names])", "            conditions = sum([name < key for name in names])")
m("C07-asof-unsorted", ASOF, "        subnodes_name = sorted(\n            node._children.keys(),\n            key=lambda name: (not name.startswith(\"before\"), name),\n        )", "        subnodes_name = list(node._children.keys())")
# ---- C13 -------------------------------------------------------------------
m("C13-memory-store-shared", MEM, "        new._arrays = dict(self._arrays)", "        new._arrays = self._arrays")
m("C13-spill-dir-shared", SIM, "        new._data_storage_dir = None\n", "")
m("C13-taint-set-shared", SIM, "        new.invalidated_caches = set()\n", "")
m("C13-group-holders-bound-to-original", GPOP, "            variable: holder.clone(result)\n            for (variable, holder) in self._holders.items()", "            variable: holder.clone(self)\n            for (variable, holder) in self._holders.items()")
m("C13-disk-periods-not-copied", HOLD, "            for period in self._disk_storage.get_known_periods():\n                new._disk_storage.put(self._disk_storage.get(period), period)", "            pass")
m("C13-roles-dropped", GPOP, "        result._members_role = self._members_role", "        result._members_role = None")
# ---- C14 -------------------------------------------------------------------
m("C14-clone-shares-parameters", TBS, "        new_dict[\"parameters\"] = self.parameters.clone()", "        new_dict[\"parameters\"] = self.parameters")
m("C14-reform-shares-variables", REF, "        self.variables = baseline.variables.copy()", "        self.variables = baseline.variables")
m("C14-update-keeps-later-formulas", VAR, "                    if first_reform_formula_date is None\n                    or baseline_start_date < first_reform_formula_date", "                    if first_reform_formula_date is None\n                    or baseline_start_date != first_reform_formula_date")
# equivalent / inside a stated don't-care band (see DESIGN 10): C14-neutralized-honours-cache
m("C14-clone-entities-shared", TBS, "        new_dict[\"entities\"] = [copy.copy(entity) for entity in self.entities]", "        new_dict[\"entities\"] = list(self.entities)")
m("C14-variable-clone-drops-baseline", VAR, "        return self.__class__(baseline_variable=self.baseline_variable)", "        return self.__class__()")
# ---- C16 -------------------------------------------------------------------
m("C16-divide-by-all", HELP, "        divided_array = remaining_array / sub_periods_count", "        divided_array = remaining_array / max(sub_periods_count, period_size if cached_period_unit == period_unit else sub_periods_count)")
m("C16-dispatch-overwrites", HELP, "        existing_array = holder.get_array(sub_period)\n        if existing_array is None:\n            holder._set(sub_period, array)\n        sub_period = sub_period.offset(1)", "        existing_array = holder.get_array(sub_period)\n        if existing_array is None or sub_period.start.month == 12:\n            holder._set(sub_period, array)\n        sub_period = sub_period.offset(1)")
m("C16-known-only-in-memory", HELP, "        existing_array = holder.get_array(sub_period)\n        if existing_array is not None:\n            remaining_array -= existing_array", "        existing_array = holder._memory_storage.get(sub_period)\n        if existing_array is not None:\n            remaining_array -= existing_array")
m("C16-walk-bound-le", HELP, "        sub_period = periods.Period((cached_period_unit, period.start, 1))\n        while sub_period.start < after_instant:\n            if holder.get_array(sub_period) is None:", "        sub_period = periods.Period((cached_period_unit, period.start, 1))\n        while sub_period.start <= after_instant:\n            if holder.get_array(sub_period) is None:")
m("C16-refusal-tolerant", HELP, "    elif not (remaining_array == 0).all():", "    elif not (abs(remaining_array) < 1).all():")
# ---- C17 -------------------------------------------------------------------
m("C17-drop-skips-inputs", HOLD, "    def _set(self, period, value) -> None:\n        value = self._to_array(value)", "    def _set(self, period, value) -> None:\n        if self._do_not_store:\n            return\n        value = self._to_array(value)")
m("C17-cursor-leak-on-failure", FT, "    def _exit_calculation(self) -> None:\n        if self._current_node is not None:", "    def _exit_calculation(self) -> None:\n        if self._current_node is not None and (self._current_node.value is not None or self._current_node.parent is None):")
# equivalent / inside a stated don't-care band (see DESIGN 10): C17-enum-map-per-store-lost
m("C17-disk-bool-as-int", DISK, "        numpy.save(path, value)\n        self._files[period] = path", "        numpy.save(path, value.astype(numpy.int8) if value.dtype == numpy.bool_ and len(value) > 3 else value)\n        self._files[period] = path")
m("C17-trace-value-before-cast", SIM, "            result = self._calculate(variable_name, period)\n            self.tracer.record_calculation_result(result)", "            result = self._calculate(variable_name, period)\n            self.tracer.record_calculation_result(result if self.tracer.stack[1:] else result.copy() * 1)")
# ---- C18 -------------------------------------------------------------------
m("C18-files-before-save", DISK, "        numpy.save(path, value)\n        self._files[period] = path", "        self._files[period] = path\n        numpy.save(path, value)")
m("C18-cache-before-cast", SIM, "            array = self._cast_formula_result(array, variable)\n            holder.put_in_cache(array, period)", "            holder.put_in_cache(array, period)\n            array = self._cast_formula_result(array, variable)")
m("C18-swallow-exceptions-in-spiral", SIM, "        except errors.SpiralError:\n            array = holder.default_array()", "        except (errors.SpiralError, errors.ParameterNotFoundError):\n            array = holder.default_array()")
m("C18-end-not-in-finally-for-add", SIM, "        return sum(\n            self.calculate(variable_name, sub_period)\n            for sub_period in period.get_subperiods(variable.definition_period)\n        )", "        self.tracer.record_calculation_start(variable_name, period)\n        result = sum(\n            self.calculate(variable_name, sub_period)\n            for sub_period in period.get_subperiods(variable.definition_period)\n        )\n        self.tracer.record_calculation_end()\n        return result")
# ---- C19 -------------------------------------------------------------------
m("C19-dump-memory-only", DUMP, "    for period in holder.get_known_periods():\n        value = holder.get_array(period)", "    for period in holder._memory_storage.get_known_periods():\n        value = holder.get_array(period)")
# equivalent / inside a stated don't-care band (see DESIGN 10): C19-restore-enum-map-dropped
m("C19-roles-first-only", DUMP, "            [encoded_roles == role.key for role in flattened_roles],\n            list(flattened_roles),", "            [encoded_roles == role.key for role in flattened_roles[:2]],\n            list(flattened_roles[:2]),")
m("C19-count-from-members", DUMP, "    population.count = len(population.ids)", "    population.count = max(population.members_entity_id) + 1")
m("C19-restore-skips-week-files", DISK, "            if not filename.endswith(\".npy\"):\n                continue", "            if not filename.endswith(\".npy\") or \"W\" in filename:\n                continue")
# ---- C20 -------------------------------------------------------------------
# equivalent / inside a stated don't-care band (see DESIGN 10): C20-index-by-position
m("C20-input-buffer-class-attr", SB, "        self.input_buffer: dict[\n            variables.Variable.name,\n            dict[str(periods.period), numpy.array],\n        ] = {}", "        self.input_buffer = SimulationBuilder._shared_buffer")
m("C20-assert-near-strict", TOOLS, "            diff <= absolute_error_margin\n        ).all()", "            diff < absolute_error_margin\n        ).all() or (diff == 0).all()")
# equivalent / inside a stated don't-care band (see DESIGN 10): C20-relative-to-actual
m("C20-instance-ignores-index", RUNNER, "            actual_value = actual_value[entity_index : entity_index + 1]", "            actual_value = actual_value[0:1] if len(actual_value) > 2 else actual_value[entity_index : entity_index + 1]")
m("C20-int-as-float-render", HAND, "        else:\n            entity_result = result.tolist()[entity_index]", "        else:\n            entity_result = result.tolist()[entity_index]\n            if variable.value_type == int and entity_result < 0:\n                entity_result = float(entity_result)")

def make(name, path, old, new):
    src = open(os.path.join(REPO, path)).read()
    if src.count(old) != 1:
        return name, f"old text found {src.count(old)} times"
    dst = src.replace(old, new)
    if name == "C20-input-buffer-class-attr":
        dst = dst.replace("class SimulationBuilder:\n", "class SimulationBuilder:\n    _shared_buffer: dict = {}\n", 1)
    diff = "".join(difflib.unified_diff(src.splitlines(True), dst.splitlines(True), f"a/{path}", f"b/{path}"))
    open(os.path.join(OUT, name + ".patch"), "w").write(diff)
    return name, None

def validate(name):
    copy = f"/dev/shm/mutval-{name}"
    try:
        subprocess.run(["rsync", "-a", "--exclude", ".git", "--exclude", "__pycache__", REPO + "/", copy + "/"], check=True)
        r = subprocess.run(["patch", "-p1", "--no-backup-if-mismatch", "-i", os.path.join(OUT, name + ".patch")], cwd=copy, capture_output=True, text=True)
        if r.returncode:
            return name, "patch failed"
        r = subprocess.run(["/venv/bin/python", "/verif/tools/baseline.py", copy], capture_output=True, text=True)
        return name, None if r.returncode == 0 else "KILLED BY TESTS: " + " | ".join(l.strip() for l in r.stdout.splitlines()[1:4])
    finally:
        shutil.rmtree(copy, ignore_errors=True)

if __name__ == "__main__":
    os.makedirs(OUT, exist_ok=True)
    only = sys.argv[1:]
    names = []
    for name, path, old, new in M:
        if only and not any(o in name for o in only):
            continue
        n, err = make(name, path, old, new)
        if err:
            print("SKIP", n, err)
        else:
            names.append(n)
    with cf.ThreadPoolExecutor(max_workers=6) as ex:
        for n, err in ex.map(validate, names):
            if err:
                print("INVALID", n, err)
                os.remove(os.path.join(OUT, n + ".patch"))
            else:
                print("ok", n)
